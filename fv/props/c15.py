"""C15 -- code generation is deterministic.

Decided (taint-style order analysis over the E2 iteration inventory + purity of the generator modules):
  GEN-ITER   every loop / comprehension that contributes to generated C++ text iterates a Sorted(role, canonical key) sequence;
             a dict / set / .items() / .values() iterated directly is a violation unless it only feeds guards, messages or sorted()
  LAY-KEY    the Python layout lists (arglist_state / _control / _calibration / arglist, sensor reading lists) are sorted by name
  SORT-KEY   every sorted() in the generator / layout code uses a total, hash-free key (natural order, .name, str)
  GEN-PURE   generation is a function of the definition alone: the generator modules keep no module-level mutable state
             (no memo dicts written by functions, no `global`, no lru_cache) -- otherwise the bytes depend on earlier generations
  FMT        no repr()/str() of a set or dict is interpolated into generated text
  POSITIVE   a built-in synthetic order leak must be reported by GEN-ITER on every run
Not decided: determinism of sympy's cse / simplify across hash seeds (trusted base).
"""
import ast

from .. import core, genlayout, scenarios
from ..interp import Env, FuncV, Interp
from ..values import *  # noqa

META = dict(level="other",
            trusted_base=["sympy.cse / simplify / ccode are deterministic functions of their input (order given)",
                          "sorted() with a total key on distinct names is independent of the input order and of PYTHONHASHSEED"],
            assumptions=["symbol / reading / sensor names are distinct strings"])

GEN_MODULES = {"cpp": "py/formak/cpp.py", "ast_fragments": "py/formak/ast_fragments.py", "ast_tools": "py/formak/ast_tools.py"}
OK_KEYS = ("natural", "name")


def sort_keys(ctx: core.Ctx, mods):
    n = 0
    all_wrappers = set()
    for m, rel in mods.items():
        t0 = ctx.parse(rel)
        all_wrappers |= {f.name for f in ast.walk(t0) if isinstance(f, ast.FunctionDef)
                         and len([x for x in f.body if not (isinstance(x, ast.Expr) and isinstance(x.value, ast.Constant))]) <= 2
                         and any(isinstance(c, ast.Call) and isinstance(c.func, ast.Name) and c.func.id == "sorted" for c in ast.walk(f))}
    for m, rel in mods.items():
        tree = ctx.parse(rel)
        fn_of = {}
        for f in ast.walk(tree):
            if isinstance(f, ast.FunctionDef):
                for sub in ast.walk(f):
                    fn_of.setdefault(sub, f.name)
        # a helper that wraps sorted() (`_sorted_by_name(xs)`): each of its call sites is a sorted() site judged through the helper's own sorted()
        wrappers = {f.name for f in ast.walk(tree) if isinstance(f, ast.FunctionDef) and len([x for x in f.body if not (isinstance(x, ast.Expr) and isinstance(x.value, ast.Constant))]) <= 2
                    and any(isinstance(c, ast.Call) and isinstance(c.func, ast.Name) and c.func.id == "sorted" for c in ast.walk(f))}
        wrappers |= all_wrappers
        for c in ast.walk(tree):
            if isinstance(c, ast.Call) and ((isinstance(c.func, ast.Name) and c.func.id in wrappers) or
                                            (isinstance(c.func, ast.Attribute) and c.func.attr in wrappers and isinstance(c.func.value, ast.Name))):
                n += 1
        for c in ast.walk(tree):
            if isinstance(c, ast.Call) and isinstance(c.func, ast.Name) and c.func.id == "sorted":
                n += 1
                key = next((k.value for k in c.keywords if k.arg == "key"), None)
                if isinstance(key, ast.Name):
                    # a local name bound once to a lambda / attrgetter in the enclosing function
                    for f in ast.walk(tree):
                        if isinstance(f, ast.FunctionDef) and c in list(ast.walk(f)):
                            defs = [a.value for a in ast.walk(f) if isinstance(a, ast.Assign) and len(a.targets) == 1
                                    and isinstance(a.targets[0], ast.Name) and a.targets[0].id == key.id]
                            if len(defs) == 1:
                                key = defs[0]
                if isinstance(key, ast.Name):
                    # ... or a module-level name bound once (`_by_name = attrgetter("name")`), or a module-level `def key(x): return x.name`
                    mdefs = [a.value for a in tree.body if isinstance(a, ast.Assign) and len(a.targets) == 1 and isinstance(a.targets[0], ast.Name)
                             and a.targets[0].id == key.id]
                    fdefs = [f for f in tree.body if isinstance(f, ast.FunctionDef) and f.name == key.id]
                    if len(mdefs) == 1 and not fdefs:
                        key = mdefs[0]
                    elif len(fdefs) == 1 and not mdefs:
                        fb = [s_ for s_ in fdefs[0].body if not (isinstance(s_, ast.Expr) and isinstance(s_.value, ast.Constant))]
                        if len(fb) == 1 and isinstance(fb[0], ast.Return) and fb[0].value is not None and len(fdefs[0].args.args) == 1:
                            key = ast.Lambda(args=fdefs[0].args, body=fb[0].value)
                ok, why = True, "natural order"
                unknown = False
                if key is not None:
                    txt = ast.unparse(key)
                    ok = False
                    if isinstance(key, ast.Lambda) and len(key.args.args) >= 1:
                        a = key.args.args[0].arg
                        body = ast.unparse(key.body)
                        if body in (f"{a}.name", f"str({a})", f"{a}[0]", f"({a}[0], {a}[2])", f"abs({a}[-1])", f"{a}[0].name") or \
                                all(part.strip().startswith(a) for part in body.strip("()").split(",")):
                            ok = "hash(" not in body and "id(" not in body
                    elif txt in ("str", "attrgetter('name')", "operator.attrgetter('name')", "itemgetter(0)", "operator.itemgetter(0)"):
                        ok = True
                    if not ok and not any(b_ in txt for b_ in ("hash(", "id(", "repr(", "random", "__hash__")):
                        unknown = True
                    why = f"key={txt}"
                if unknown:
                    ctx.error(f"{rel}:{fn_of.get(c, '<module>')}: the sort key `{ast.unparse(key)[:80]}` is not an enumerated form (cannot tell whether it is total and hash free)")
                    continue
                ctx.oblige("SORT-KEY", f"{rel}:{fn_of.get(c, '<module>')}", f"sorted(..., {why})", ok, file=rel, func=fn_of.get(c, "<module>"),
                           construct=f"sorted key {ast.unparse(key) if key is not None else 'natural'}",
                           msg=f"`{ast.unparse(c)[:100]}` sorts by `{ast.unparse(key) if key is not None else ''}`, which is not a total, hash-free key",
                           line=c.lineno)
    return n


MUTATORS = ("append", "extend", "update", "setdefault", "add", "insert", "pop", "clear", "remove", "discard", "sort", "reverse", "popitem", "appendleft",
            "difference_update", "intersection_update", "symmetric_difference_update", "__setitem__", "__delitem__")


def gen_pure(ctx: core.Ctx, modules=None, rule="GEN-PURE", floor=60):
    """GEN-PURE: no module-level mutable state written by functions of the given modules"""
    n = 0
    for m, rel in (modules or GEN_MODULES).items():
        tree = ctx.parse(rel)
        module_names = set()
        for s in tree.body:
            if isinstance(s, (ast.Assign, ast.AnnAssign)):
                tg = s.targets if isinstance(s, ast.Assign) else [s.target]
                for t in tg:
                    if isinstance(t, ast.Name):
                        module_names.add(t.id)
        module_mutables = set()
        for s in tree.body:
            if isinstance(s, (ast.Assign, ast.AnnAssign)) and s.value is not None:
                v = s.value
                if isinstance(v, (ast.Dict, ast.List, ast.Set, ast.ListComp, ast.DictComp, ast.SetComp)) or \
                        (isinstance(v, ast.Call) and ast.unparse(v.func).split(".")[-1] in ("dict", "list", "set", "defaultdict", "OrderedDict", "Counter", "deque")):
                    for t in (s.targets if isinstance(s, ast.Assign) else [s.target]):
                        if isinstance(t, ast.Name):
                            module_mutables.add(t.id)
        for f in ast.walk(tree):
            if not isinstance(f, (ast.FunctionDef, ast.AsyncFunctionDef)):
                continue
            n += 1
            locals_ = {a.arg for a in f.args.args + f.args.kwonlyargs} | {t.id for s in ast.walk(f) if isinstance(s, ast.Assign) for t in s.targets if isinstance(t, ast.Name)}
            probs = []
            for d in f.decorator_list:
                txt = ast.unparse(d)
                if "lru_cache" in txt or txt.split("(")[0].split(".")[-1] in ("cache", "cached", "memoize"):
                    probs.append((d.lineno, f"memoising decorator @{txt}"))
            # a local bound directly to a module-level container (`required = HEADER_INCLUDES`, also through `a if c else b` / `a or b`) is that
            # container: mutating it through the local -- item store, mutator method, in-place operator -- writes the module's state.
            # Statement order is followed (a later `required = dict(required)` ends the alias); branches are not distinguished.
            alias = {}

            def direct(v):
                if isinstance(v, ast.Name):
                    if v.id in alias:
                        return alias[v.id]
                    return v.id if v.id in module_mutables and v.id not in locals_ else None
                if isinstance(v, ast.IfExp):
                    return direct(v.body) or direct(v.orelse)
                if isinstance(v, ast.BoolOp):
                    return next((d for d in map(direct, v.values) if d), None)
                if isinstance(v, ast.NamedExpr):
                    return direct(v.value)
                return None

            def target_of(tgt):
                if isinstance(tgt, ast.Name):
                    if tgt.id in alias:
                        return alias[tgt.id], tgt.id
                    if tgt.id in module_names and tgt.id not in locals_:
                        return tgt.id, None
                return None, None
            for s in sorted((x for x in ast.walk(f) if hasattr(x, "lineno")), key=lambda x: (x.lineno, x.col_offset)):
                if isinstance(s, ast.Global):
                    probs.append((s.lineno, f"`global {', '.join(s.names)}`"))
                tgt = None
                if isinstance(s, ast.Assign):
                    for t in s.targets:
                        if isinstance(t, ast.Subscript):
                            tgt = t.value
                        elif isinstance(t, ast.Name):
                            d = direct(s.value)
                            if d is not None:
                                alias[t.id] = d
                            else:
                                alias.pop(t.id, None)
                elif isinstance(s, ast.AugAssign) and isinstance(s.target, ast.Subscript):
                    tgt = s.target.value
                elif isinstance(s, ast.AugAssign) and isinstance(s.target, ast.Name) and s.target.id in alias:
                    tgt = s.target                      # `alias |= other` / `alias += other`: in place for dict / set / list
                elif isinstance(s, ast.Delete):
                    for t in s.targets:
                        if isinstance(t, ast.Subscript):
                            tgt = t.value
                elif isinstance(s, ast.Call) and isinstance(s.func, ast.Attribute) and s.func.attr in MUTATORS:
                    tgt = s.func.value
                who, via = target_of(tgt)
                if who is not None:
                    probs.append((s.lineno, f"writes module-level `{who}`" + (f" through its local alias `{via}`" if via else "")))
            ctx.oblige(rule, f"{rel}:{f.name}", f"{len(probs)} module-state effect(s)", not probs, file=rel, func=f.name,
                       construct="module state:" + ";".join(p[1] for p in probs),
                       msg=f"{f.name} keeps state across generations ({'; '.join(p[1] + ' (line ' + str(p[0]) + ')' for p in probs)}): the bytes generated for a "
                           f"definition then depend on what was generated earlier in the same process", line=probs[0][0] if probs else None)
        # class-level mutable containers that the instances mutate without ever rebinding them: one object shared by every instance
        for c in ast.walk(tree):
            if not isinstance(c, ast.ClassDef):
                continue
            shared = {}
            for st in c.body:
                tg, val = None, None
                if isinstance(st, ast.Assign) and len(st.targets) == 1 and isinstance(st.targets[0], ast.Name):
                    tg, val = st.targets[0].id, st.value
                elif isinstance(st, ast.AnnAssign) and isinstance(st.target, ast.Name) and st.value is not None:
                    tg, val = st.target.id, st.value
                if tg is None:
                    continue
                mutable = isinstance(val, (ast.Dict, ast.List, ast.Set)) or (isinstance(val, ast.Call) and isinstance(val.func, ast.Name)
                                                                              and val.func.id in ("dict", "list", "set", "defaultdict", "OrderedDict"))
                if mutable:
                    shared[tg] = st.lineno
            if not shared:
                continue
            rebound, mutated = set(), {}
            for f in ast.walk(c):
                if not isinstance(f, ast.FunctionDef):
                    continue
                for s_ in ast.walk(f):
                    if isinstance(s_, ast.Assign):
                        for t in s_.targets:
                            if isinstance(t, ast.Attribute) and isinstance(t.value, ast.Name) and t.value.id in ("self", "cls") and t.attr in shared:
                                rebound.add(t.attr)
                            if isinstance(t, ast.Subscript) and isinstance(t.value, ast.Attribute) and isinstance(t.value.value, ast.Name) \
                                    and t.value.value.id in ("self", "cls") and t.value.attr in shared:
                                mutated.setdefault(t.value.attr, s_.lineno)
                    if isinstance(s_, ast.Call) and isinstance(s_.func, ast.Attribute) and s_.func.attr in ("append", "extend", "update", "setdefault", "add", "insert", "pop", "clear") \
                            and isinstance(s_.func.value, ast.Attribute) and isinstance(s_.func.value.value, ast.Name) and s_.func.value.value.id in ("self", "cls") \
                            and s_.func.value.attr in shared:
                        mutated.setdefault(s_.func.value.attr, s_.lineno)
            for nm, ln in sorted(mutated.items()):
                if nm not in rebound:
                    ctx.oblige(rule, f"{rel}:{c.name}", f"class attribute {nm} shared and mutated", False, file=rel, func=c.name, construct=f"shared class attribute {nm}",
                               msg=f"{c.name}.{nm} is a mutable container created once in the class body (line {shared[nm]}) and filled through `self.{nm}` (line {ln}) "
                                   f"without ever being re-created per instance: every {c.name} in the process shares it, so a later instance overwrites the entries "
                                   f"of an earlier one", line=shared[nm])
    ctx.floor(rule, n, floor, "functions examined for module-level state")


def fmt_rule(ctx: core.Ctx):
    """FMT: no str()/repr() of a whole set / dict interpolated outside raise / print / logging"""
    n = 0
    for m, rel in GEN_MODULES.items():
        tree = ctx.parse(rel)
        par = {}
        for p in ast.walk(tree):
            for c in ast.iter_child_nodes(p):
                par[c] = p
        for fs in ast.walk(tree):
            if not isinstance(fs, ast.JoinedStr):
                continue
            chain, p = [], par.get(fs)
            while p is not None and len(chain) < 8:
                chain.append(p)
                p = par.get(p)
            if any(isinstance(c, ast.Raise) for c in chain) or any(isinstance(c, ast.Call) and isinstance(c.func, ast.Name) and c.func.id == "print" for c in chain) \
                    or any(isinstance(c, ast.Call) and isinstance(c.func, ast.Attribute) and c.func.attr in ("warning", "info", "debug", "error") for c in chain):
                continue
            for v in fs.values:
                if isinstance(v, ast.FormattedValue):
                    n += 1
                    e = v.value
                    bad = isinstance(e, (ast.Set, ast.Dict, ast.SetComp, ast.DictComp)) or \
                        (isinstance(e, ast.Call) and isinstance(e.func, ast.Name) and e.func.id in ("set", "dict", "frozenset"))
                    ctx.oblige("FMT", f"{rel}", f"hole `{ast.unparse(e)[:60]}`", not bad, file=rel, func="", construct=f"fstring hole {ast.unparse(e)[:60]}",
                               msg=f"a set / dict is interpolated into generated text: `{ast.unparse(fs)[:100]}`", line=fs.lineno)
    ctx.floor("FMT", n, 30, "f-string holes in generator modules examined")


POSITIVE_SRC = '''
class ExtendedKalmanFilter:
    def _leak(self, symbolic_model):
        for a, expr in symbolic_model.state_model.items():
            yield f"double {a.name}", expr
'''


def positive_example(ctx: core.Ctx, g: genlayout.GenInfo):
    tree = ast.parse(POSITIVE_SRC)
    fn = tree.body[0].body[0]
    it = g.it
    n0 = len(it.iterations)
    it.call_func(FuncV(fn, "cpp", g.ekf, "ExtendedKalmanFilter"), [], {"symbolic_model": ModelV()}, Env("cpp"), fn)
    new = it.iterations[n0:]
    fired = any(isinstance(i["source"], tuple) and i["source"] and i["source"][0] == "ITEMS" for i in new)
    del it.iterations[n0:]
    if not fired:
        ctx.error("POSITIVE: the built-in order leak (iteration over state_model.items() feeding a yield) was not recognised as unordered")
    ctx.floors["POSITIVE"] = {"count": int(fired), "floor": 1, "what": "built-in positive example reported"}


def run(ctx: core.Ctx) -> int:
    for rid, t in (("GEN-ITER", "generator iterations run over ordered, canonical layouts"), ("SLOT-AGREE", "one layout per generated type"),
                   ("LAY-KEY", "Python layout lists sorted by name"), ("SORT-KEY", "total, hash-free sort keys"),
                   ("GEN-PURE", "no module-level mutable state in generator modules"), ("FMT", "no set/dict repr in generated text"),
                   ("POSITIVE", "built-in order leak is reported")):
        ctx.rule(rid, t)
    prog = scenarios.program(ctx)
    g = genlayout.GenInfo(ctx, prog)
    positive_example(ctx, g)
    genlayout.check_iterations(ctx, g)
    genlayout.check_returns(ctx, g)
    # Python layout
    sc = scenarios.PyEKF(ctx, prog, run=())
    S, C, K = (Layout((("SORT", r, "name"),)) for r in ("STATE", "CONTROL", "CALIB"))
    DT = Layout((("DT",),))
    m = sc.ekf.attrs["_state_model"]
    for obj, oname, attrs in ((sc.ekf, "ExtendedKalmanFilter", {"arglist_state": S, "arglist_control": C, "arglist_calibration": K, "arglist_sensor": S + K}),
                              (m, "Model", {"arglist_state": S, "arglist_control": C, "arglist_calibration": K, "arglist": DT + S + K + C})):
        for attr, want in attrs.items():
            v = obj.attrs.get(attr)
            ok = isinstance(v, SeqV) and v.layout == want
            ctx.oblige("LAY-KEY", f"py/formak/python.py:{oname}.__init__", f"{oname}.{attr} : {v!r}", ok, file="py/formak/python.py", func=f"{oname}.__init__",
                       construct=attr, msg=f"python {oname}.{attr} is {v!r}; a deterministic layout requires {want}")
    sm = None
    fam = sc.ekf.attrs.get("sensor_models")
    if isinstance(fam, FamV) and isinstance(fam.value, ObjV):
        r = fam.value.attrs.get("readings")
        R = Layout((("SORT", ("READ", "k"), "natural"),))
        ctx.oblige("LAY-KEY", "py/formak/python.py:SensorModel.__init__", f"SensorModel.readings : {r!r}", isinstance(r, SeqV) and r.layout == R,
                   file="py/formak/python.py", func="SensorModel.__init__", construct="readings", msg=f"python SensorModel.readings is {r!r}; required {R}")
    # every layout the compiled Python filter holds (blocks, name lists, named classes, arrays) is ordered
    ctx.rule("LAY-ORD", "no declaration-order / hash-order sequence is held by the compiled Python filter (argument lists, Jacobian rows / columns, named classes)")
    scf = scenarios.PyEKF(ctx, prog, run=())
    seen_ids, unordered, nlay = set(), [], 0

    def lays_of(v):
        if isinstance(v, SeqV):
            return [v.layout]
        if isinstance(v, NCls):
            return [v.layout]
        if isinstance(v, ArrV):
            return [x for x in (v.rows, v.cols) if isinstance(x, Layout)]
        if isinstance(v, BlockV):
            out = [v.formals] if isinstance(v.formals, Layout) else []
            if isinstance(v.outputs, Layout):
                out.append(v.outputs)
            if isinstance(v.outputs, FlatV):
                out += [v.outputs.rows, v.outputs.cols]
            return out
        return []

    def walk_obj(o, path):
        nonlocal nlay
        if id(o) in seen_ids:
            return
        seen_ids.add(id(o))
        if isinstance(o, ObjV):
            for k, v in o.attrs.items():
                walk_obj(v, f"{path}.{k}" if k != "__fam__" else f"{path}[k]")
        elif isinstance(o, FamV):
            walk_obj(o.value, path + "[k]")
        else:
            for l in lays_of(o):
                nlay += 1
                if not l.ordered():
                    unordered.append((path, l))
    walk_obj(scf.ekf, "ExtendedKalmanFilter")
    ctx.floor("LAY-ORD", nlay, 20, "layouts held by the compiled Python filter")
    ctx.oblige("LAY-ORD", "py/formak/python.py:ExtendedKalmanFilter", f"{nlay} layouts, {len(unordered)} unordered", not unordered, file="py/formak/python.py",
               func="ExtendedKalmanFilter.__init__", construct="unordered layouts:" + ";".join(p for p, _ in unordered),
               msg="the compiled Python filter's layout depends on declaration / hash order: " + "; ".join(f"{p} : {l}" for p, l in unordered))
    # python.py iterations that feed layouts: unordered sources only keyed
    n = sort_keys(ctx, dict(GEN_MODULES, python="py/formak/python.py"))
    ctx.floor("SORT-KEY", n, 30, "sorted() sites classified")
    gen_pure(ctx)
    fmt_rule(ctx)
    from .. import tmprules as _tmp
    ctx.rule("TMP-4", "CSE temporaries are named from a stream created per call (names do not drift between emissions)")
    ctx.rule("TRUST-SIG", "trusted sympy call signatures")
    for _cls, _fn, _rel, _mod in (("BasicBlock", "compile", "py/formak/cpp.py", "cpp"), ("BasicBlock", "_compile", "py/formak/python.py", "python")):
        _c = core.find_class(prog.modules[_mod], _cls)
        _f = core.find_func(_c, _fn) if _c else None
        if _f is None:
            ctx.error(f"anchor missing: {_mod}.{_cls}.{_fn}")
        else:
            _tmp.trust_sig(ctx, _rel, f"{_cls}.{_fn}", _f)
    # ---- the named-array constructors are on the generator's path (sensor noise -> Covariance.from_dict -> the emitted covariance(i, i) constants) and
    # behind every Python layout: their slot order must be the arglist's, not a set's (shared with C13)
    from . import c13 as _c13
    for _rid, _t in (("NV-NAMES", "named arrays accept the str() names of their arglist, in its order"), ("NV-STORE", "the value given for a name is stored at its index"),
                     ("NV-DEFAULT", "zeros / unit variance defaults"), ("NV-GUARD", "unknown names refused"), ("NV-DATA", "_data stored as is"),
                     ("NV-SHAPE", "shape from the arglist")):
        ctx.rule(_rid, _t)
    _cm = ctx.parse("py/formak/common.py")
    _c13.check_named(ctx, _cm, "named_covariance", "cov")
    _c13.check_named(ctx, _cm, "named_vector", "vec")
    # ---- DET-W: the constructed generator under different hash orders.  The witness model's symbols hash in a fixed order that is not their name
    # order (fv.witness.WSym); re-salting the hash changes the iteration order of every set / dict of symbols the generator is handed.  The text
    # derived for the translation unit must not change -- whatever helper or container the generator routes its symbols through.
    from .. import witness as _w
    ctx.rule("DET-W", "the code derived from the constructed generator is the same under every hash order of the model's symbols")
    wit = _w.Witness(ctx)
    ndet = 0
    for v in (_w.Valuation(True, True), _w.Valuation(True, True, ekf=False)):
        texts, orders = [], []
        try:
            for salt in (b"", b"a", b"bb", b"ccc", b"dddd"):
                _w.WSym.salt = salt
                orders.append(tuple(str(x) for x in _w.WModel(v).state) + tuple(str(x) for x in _w.WModel(v).calibration) + tuple(str(x) for x in _w.WModel(v).control))
                texts.append(wit.tu(v))
        finally:
            _w.WSym.salt = b""
        if len(set(orders)) < 2:
            ctx.error(f"DET-W: the salts did not change the iteration order of the witness model's symbol sets ({v.tag})")
            continue
        ndet += 1
        same = len(set(texts)) == 1
        diff_line = ""
        if not same:
            a_, b_ = texts[0].splitlines(), next(t for t in texts if t != texts[0]).splitlines()
            k_ = next((i for i, (x, y) in enumerate(zip(a_, b_)) if x != y), min(len(a_), len(b_)))
            diff_line = f"first difference: `{(a_[k_] if k_ < len(a_) else '<end>')[:90]}` vs `{(b_[k_] if k_ < len(b_) else '<end>')[:90]}`"
        ctx.oblige("DET-W", f"witness {v.tag}", f"{len(set(orders))} distinct symbol orders -> {len(set(texts))} distinct text(s)", same, file="py/formak/cpp.py",
                   func="<constructed generator>", construct="hash-order dependence " + diff_line[:60],
                   msg=f"the generated code depends on the hash order of the model's symbol sets: {diff_line}")
    ctx.floor("DET-W", ndet, 2, "witness valuations re-derived under different hash orders")
    # generating twice from one generator object gives the same bytes: the generator's methods keep nothing from one emission to the next (shared with C02)
    from . import c02 as _c02gm
    _c02gm.gen_memo(ctx)
    return core.finish(ctx, explanation="order-taint over the E2 iteration inventory of the generator, sort-key totality, purity of generator modules", **META)
