"""C09 -- valid covariance in, valid covariance out, along any update history.

Mostly out of reach for static analysis: positive semi-definiteness "up to rounding" along an arbitrary history is a numerical
statement.  Claimed are only the structural clauses, each a necessary condition of the property:
  GATE-REL  in assert_valid_covariance the threshold of the eigenvalue comparison data-depends on the matrix argument (size /
            magnitude).  Necessary: with a scale-free threshold tau < 0, a valid rank-deficient PSD matrix of magnitude s has computed
            eigenvalues of order -eps*s and is refused for s > |tau|/eps -- the property's own failure mode
  SYM-REL   the tolerance of the symmetry comparison data-depends on the magnitude of the matrix (an element-wise relative or an
            absolute tolerance refuses large covariances whose small entries carry rounding asymmetry)
  PSD-FORM  the prediction covariance normal form (E3, from process_model) is a sum of congruences X.A.X^T with A in {P, M}: PSD by
            construction in exact arithmetic, including singular Jacobians
  GATE-SITES the gate is applied to matrices only through assert_valid_covariance (no second, scale-free gate elsewhere in the filter)
NOT decided (see MANIFEST level_note): the update step P - K.H.P, accumulation over histories, symmetry drift.
"""
import ast

from .. import core, scenarios
from ..matform import MatForm
from ..values import *  # noqa

META = dict(level="other", trusted_base=["numpy.linalg.eig / allclose semantics", "exact-arithmetic fact: X A X^T is PSD when A is"],
            assumptions=["only the structural (necessary) clauses are decided; numerical conditioning along histories is not"])
F = "py/formak/python.py"


def depends_on(expr, names, env, depth=0):
    """does `expr` data-depend on any of `names` through local assignments?"""
    if depth > 8:
        return False
    for n in ast.walk(expr):
        if isinstance(n, ast.Name):
            if n.id in names:
                return True
            for v in env.get(n.id, []):
                if v is not expr and depends_on(v, names, env, depth + 1):
                    return True
    return False


def run(ctx: core.Ctx) -> int:
    for rid, t in (("GATE-REL", "eigenvalue threshold depends on the matrix"), ("SYM-REL", "symmetry tolerance depends on the matrix magnitude"),
                   ("PSD-FORM", "prediction covariance is a sum of congruences of P and M"), ("GATE-SITES", "no other positivity / symmetry gate in the filter"),
                   ("GATE-SYM", "the computed innovation covariance is symmetrised before it is validated")):
        ctx.rule(rid, t)
    prog = scenarios.program(ctx)
    mod = prog.modules["python"]
    fn, _moved = core.find_func_imported(ctx, mod, "assert_valid_covariance")      # the gate may live in common.py and be imported back
    fn = core.need(fn, "python.assert_valid_covariance")
    ctx.functions.append("python.assert_valid_covariance")
    q = "assert_valid_covariance"
    where = f"{F}:{q}"
    param = fn.args.args[0].arg if fn.args.args else None
    if param is None:
        raise core.AnalysisError(f"{where}: no matrix parameter")
    env = {}
    for s in ast.walk(fn):
        if isinstance(s, ast.Assign):
            for t in s.targets:
                for nm in ast.walk(t):
                    if isinstance(nm, ast.Name):
                        env.setdefault(nm.id, []).append(s.value)
    # eigenvalue comparison(s)
    def _is_eig(v):
        if isinstance(v, ast.Subscript) and isinstance(v.value, ast.Call) and ast.unparse(v.value.func).split(".")[-1] in ("eig", "eigh"):
            # np.linalg.eig returns (eigenvalues, eigenvectors): the gate must look at component 0
            if not (isinstance(v.slice, ast.Constant) and v.slice.value == 0):
                ctx.oblige("GATE-REL", where, f"`{ast.unparse(v)}` takes the eigenvalues", False, file=F, func=q, construct="eigenvalue component",
                           msg=f"`{ast.unparse(v)}` is not the eigenvalue component (index 0) of np.linalg.eig's result: the gate tests eigenvector entries",
                           line=v.lineno)
        while isinstance(v, ast.Subscript):
            v = v.value
        if isinstance(v, ast.Attribute) and v.attr in ("real",):
            v = v.value
        return isinstance(v, ast.Call) and ast.unparse(v.func).split(".")[-1] in ("eig", "eigh", "eigvals", "eigvalsh")
    eig_names = {n for n, vs in env.items() if any(_is_eig(v) for v in vs)}
    def _eig_operand(e):
        """the operand IS the eigenvalue quantity (possibly .real / indexed / reduced by min), not a tolerance that merely mentions its magnitude"""
        while True:
            if isinstance(e, ast.Subscript):
                e = e.value
            elif isinstance(e, ast.Attribute) and e.attr == "real":
                e = e.value
            elif isinstance(e, ast.Call) and ast.unparse(e.func).split(".")[-1] in ("min", "amin", "real") and len(e.args) == 1 and not e.keywords:
                e = e.args[0]
            else:
                break
        return (isinstance(e, ast.Name) and e.id in eig_names) or _is_eig(e)
    comps = []
    for c in ast.walk(fn):
        if isinstance(c, ast.Compare) and len(c.ops) == 1 and isinstance(c.ops[0], (ast.Lt, ast.LtE, ast.Gt, ast.GtE)):
            l, r = c.left, c.comparators[0]
            le, re_ = _eig_operand(l), _eig_operand(r)
            if le != re_:
                comps.append((c, r if le else l))
    ctx.floor("GATE-REL", len(comps), 1, "eigenvalue comparisons in assert_valid_covariance")
    par_of = {}
    for p_ in ast.walk(fn):
        for ch in ast.iter_child_nodes(p_):
            par_of[ch] = p_
    defaults = {a.arg: d for a, d in zip(fn.args.kwonlyargs, fn.args.kw_defaults) if d is not None}
    defaults.update(dict(zip([a.arg for a in fn.args.args][len(fn.args.args) - len(fn.args.defaults):], fn.args.defaults)))

    def tol_form(e, depth=0):
        """a tolerance expression as (numeric constant, [increasing magnitude atoms]) or (None, reason): a product of one constant and quantities
        that grow with the size / magnitude of the matrix.  A min(), a division by such a quantity or a sum is not of that form."""
        if depth > 6:
            return None, "too deep"
        if isinstance(e, ast.Constant) and isinstance(e.value, (int, float)) and not isinstance(e.value, bool):
            return float(e.value), []
        if isinstance(e, ast.UnaryOp) and isinstance(e.op, ast.USub):
            c_, at = tol_form(e.operand, depth + 1)
            return (None, at) if c_ is None else (-c_, at)
        if isinstance(e, ast.Name):
            if e.id in defaults and e.id not in env:
                return tol_form(defaults[e.id], depth + 1)
            if len(env.get(e.id, [])) == 1:
                return tol_form(env[e.id][0], depth + 1)
            return None, f"`{e.id}` has no single definition"
        if isinstance(e, ast.BinOp) and isinstance(e.op, ast.Mult):
            (c1, a1), (c2, a2) = tol_form(e.left, depth + 1), tol_form(e.right, depth + 1)
            if c1 is None:
                return None, a1
            if c2 is None:
                return None, a2
            return c1 * c2, a1 + a2
        if isinstance(e, ast.BinOp) and isinstance(e.op, ast.Div):
            (c1, a1), (c2, a2) = tol_form(e.left, depth + 1), tol_form(e.right, depth + 1)
            if c1 is None:
                return None, a1
            if c2 is None:
                return None, a2
            if a2:
                return None, f"divides by `{ast.unparse(e.right)[:50]}`, a quantity that grows with the matrix: the tolerance shrinks for large matrices"
            return c1 / c2, a1
        if isinstance(e, ast.Call):
            f = ast.unparse(e.func)
            if f == "max" and len(e.args) == 2:
                parts = [tol_form(a, depth + 1) for a in e.args]
                consts = [p_[0] for p_ in parts if p_[0] is not None and not p_[1]]
                grow = [p_ for p_ in parts if p_[0] is not None and p_[1]]
                if len(consts) == 1 and len(grow) == 1 and consts[0] > 0 and grow[0][0] > 0:
                    return 1.0, [f"max({consts[0]:g}, " + "*".join(grow[0][1]) + ")"]
                return None, f"`{ast.unparse(e)[:60]}` is not max(positive constant, magnitude)"
            if f == "min":
                return None, f"`{ast.unparse(e)[:60]}` caps the scale: above the cap the tolerance is absolute again"
            if f == "len" and e.args and ast.unparse(e.args[0]) == param:
                return 1.0, ["n"]
            if f in ("np.max", "np.amax", "numpy.max", "np.linalg.norm", "np.trace", "np.sum") and e.args:
                inner = e.args[0]
                if isinstance(inner, ast.Call) and ast.unparse(inner.func) in ("np.abs", "abs", "np.absolute", "np.diag") and inner.args \
                        and depends_on(inner.args[0], {param} | eig_names, env):
                    return 1.0, [f"{f}|{ast.unparse(inner.args[0])[:30]}|"]
                if f in ("np.linalg.norm", "np.trace") and depends_on(inner, {param} | eig_names, env):
                    return 1.0, [f"{f}({ast.unparse(inner)[:30]})"]
            return None, f"`{ast.unparse(e)[:60]}` is not a recognised magnitude of the matrix"
        if isinstance(e, ast.Subscript) and ast.unparse(e).replace(" ", "") in (f"{param}.shape[0]", f"{param}.shape[1]"):
            return 1.0, ["n"]
        return None, f"`{ast.unparse(e)[:60]}` is not a product of a constant and magnitudes of the matrix"
    for c, thr in comps:
        # polarity: the gate raises exactly when some eigenvalue lies below the threshold
        eig_left = any(isinstance(n_, ast.Name) and n_.id in eig_names for n_ in ast.walk(c.left)) or "eig" in ast.unparse(c.left)
        below = isinstance(c.ops[0], (ast.Lt, ast.LtE)) if eig_left else isinstance(c.ops[0], (ast.Gt, ast.GtE))     # the comparison says "eig below thr"
        pol, node, quant = True, c, None
        st = None
        while node in par_of:
            up = par_of[node]
            if isinstance(up, ast.UnaryOp) and isinstance(up.op, ast.Not):
                pol = not pol
            if isinstance(up, ast.Call) and ast.unparse(up.func).split(".")[-1] in ("any", "all"):
                quant = ast.unparse(up.func).split(".")[-1]
            if isinstance(up, (ast.If, ast.Assert)) and node is up.test:
                st = up
                break
            node = up
        okp, whyp = False, "the comparison is not the test of an `if ...: raise` or an assert"
        if st is not None:
            says_bad = below if pol else not below          # the tested expression is true when (some / every) eigenvalue is below the threshold
            want_quant = "any" if says_bad else "all"
            if isinstance(st, ast.If):
                raises = any(isinstance(x, ast.Raise) for x in st.body)
                okp = raises and says_bad and quant in (None, "any")
                whyp = ("raises when " + ("no" if not says_bad else "every" if quant == "all" else "an") + " eigenvalue is below the threshold") if raises else "the test raises nothing"
            else:
                okp = (not says_bad) and quant in (None, "all")
                whyp = "asserts that " + ("some" if quant == "any" else "the") + " eigenvalue(s) are " + ("below" if says_bad else "not below") + " the threshold"
            _ = want_quant
        ctx.oblige("GATE-REL", where, f"`{ast.unparse(c)}` refuses exactly the matrices with an eigenvalue below the threshold", okp, file=F, func=q,
                   construct="eigenvalue gate polarity", msg=f"the eigenvalue gate {whyp}: valid covariances are refused (or invalid ones accepted)", line=c.lineno)
        cst, atoms = tol_form(thr)
        okf = cst is not None and -1e-6 <= cst < 0 and bool(atoms)
        ctx.oblige("GATE-REL", where, f"threshold `{ast.unparse(thr)}` = {cst} * {atoms}", okf, file=F, func=q, construct="eigenvalue threshold form",
                   msg=(f"the eigenvalue threshold `{ast.unparse(thr)}`: {atoms}" if cst is None else
                        f"the eigenvalue threshold `{ast.unparse(thr)}` is {cst:g} x {atoms}: required a small negative constant times quantities that grow "
                        f"with the size / magnitude of the matrix"), line=c.lineno)
    for c, thr in comps:
        ok = depends_on(thr, {param} | eig_names, env)
        ctx.oblige("GATE-REL", where, f"`{ast.unparse(c)}`: threshold `{ast.unparse(thr)}`", ok, file=F, func=q, construct="eigenvalue threshold",
                   msg=f"the eigenvalue gate `{ast.unparse(c)}` compares with `{ast.unparse(thr)}`, which does not depend on the matrix: exactly PSD, "
                       f"rank-deficient covariances of large magnitude are refused (computed eigenvalues are of order -eps*magnitude)", line=c.lineno)
    # symmetry comparison(s)
    syms = [c for c in ast.walk(fn) if isinstance(c, ast.Call) and ast.unparse(c.func) in ("np.allclose", "np.isclose", "numpy.allclose", "np.array_equal",
                                                                                          "np.testing.assert_allclose")]
    ctx.floor("SYM-REL", len(syms), 1, "symmetry comparisons in assert_valid_covariance")
    for c in syms:
        tol = [k.value for k in c.keywords if k.arg in ("atol", "rtol")] + list(c.args[2:])
        okt = any(depends_on(t, {param}, env) for t in tol)
        # comparing normalised operands is also relative to the matrix
        okn = all(isinstance(a, ast.BinOp) and isinstance(a.op, ast.Div) and depends_on(a.right, {param}, env) for a in c.args[:2]) if len(c.args) >= 2 else False
        for t in tol:
            if depends_on(t, {param}, env):
                cst, atoms = tol_form(t)
                okf = cst is not None and 0 < cst <= 1e-5 and bool(atoms)
                ctx.oblige("SYM-REL", where, f"tolerance `{ast.unparse(t)}` = {cst} * {atoms}", okf, file=F, func=q, construct="symmetry tolerance form",
                           msg=(f"the symmetry tolerance `{ast.unparse(t)}`: {atoms}" if cst is None else
                                f"the symmetry tolerance `{ast.unparse(t)}` is {cst:g} x {atoms}: required a small positive constant times the magnitude of the matrix"),
                           line=c.lineno)
        ctx.oblige("SYM-REL", where, f"`{ast.unparse(c)}`", okt or okn, file=F, func=q, construct="symmetry tolerance",
                   msg=f"the symmetry gate `{ast.unparse(c)}` uses a tolerance that does not depend on the magnitude of the matrix: a covariance that is "
                       f"symmetric up to rounding relative to its magnitude is refused once its entries are large", line=c.lineno)
    # PSD-FORM
    sc = scenarios.PyEKF(ctx, prog, run=("process_model",))
    n = 0
    for r in sc.alts(sc.results["process_model"]):
        if isinstance(r, TupleV) and len(r.items) == 2 and isinstance(r.items[1], NInst) and r.items[1].arr is not None and r.items[1].arr.form is not None:
            form = r.items[1].arr.form
            n += 1
            bad = []
            for w, c in form.p.items():
                okw = c > 0 and len(w) == 3 and w[1][0] == "A" and w[1][1] in ("P", "M") and w[0][0] == "A" and w[2][0] == "A" \
                    and w[0][1] == w[2][1] and w[0][2] is False and w[2][2] is True
                if not okw:
                    bad.append((c, w))
            ctx.oblige("PSD-FORM", f"{F}:ExtendedKalmanFilter.process_model", f"returned covariance = {form!r}", not bad, file=F,
                       func="ExtendedKalmanFilter.process_model", construct="congruence form",
                       msg=f"the predicted covariance {form!r} is not a sum of congruences X.A.X^T of the (PSD) prior and noise: it is not PSD by construction")
    ctx.floor("PSD-FORM", n, 1, "prediction covariance forms")
    # UPD-SHAPE: the update's covariance is one of the textbook forms, built from conforming matrix products (no broadcast): with an elementwise
    # product or a mis-shaped term the posterior is not even symmetric.  (Whether P - K.H.P stays PSD numerically is NOT decided.)
    ctx.rule("UPD-SHAPE", "posterior covariance is P - K.H.P / (I - K.H).P / Joseph form, from conforming products")
    sc2 = scenarios.PyEKF(ctx, prog, run=("sensor_model",))
    scenarios.transfer(sc2.it, ctx, rules={"ARR-MM", "ARR-EW"}, funcs=["ExtendedKalmanFilter.sensor_model"])
    ctx.rule("ARR-MM", "matrix products conform on name-typed axes")
    ctx.rule("ARR-EW", "sums conform; `*` between matrices is elementwise, not a product")
    Pm, Qm, Hm = MatForm.atom("P", True), MatForm.atom("Q", True), MatForm.atom("H")
    Sm = Hm * Pm * Hm.T() + Qm
    Km = Pm * Hm.T() * Sm.inv()
    Im = MatForm.identity()
    accepted = [Pm - Km * Hm * Pm, (Im - Km * Hm) * Pm * (Im - Km * Hm).T() + Km * Qm * Km.T()]
    nupd = 0
    for r in sc2.alts(sc2.results["sensor_model"]):
        if isinstance(r, TupleV) and len(r.items) == 2 and isinstance(r.items[1], NInst) and r.items[1].origin != "P":
            cov = r.items[1]
            form = cov.arr.form if cov.arr is not None else None
            nupd += 1
            if form is None:
                if not any(f.rule in ("ARR-MM", "ARR-EW") for f in ctx.findings):
                    ctx.error("ExtendedKalmanFilter.sensor_model: the posterior covariance has no derivable normal form")
                continue
            ctx.oblige("UPD-SHAPE", f"{F}:ExtendedKalmanFilter.sensor_model", f"posterior covariance = {form!r}", any(form == a for a in accepted), file=F,
                       func="ExtendedKalmanFilter.sensor_model", construct="posterior covariance form",
                       msg=f"the posterior covariance {form!r} is none of P - K.H.P, (I - K.H).P, Joseph form")
    ctx.floor("UPD-SHAPE", nupd, 1, "update return paths")
    # GATE-SYM: the innovation covariance S = H.P.H^T + Q is symmetrised before it meets the gate.  Its products round relative to |H|^2.|P|, the
    # gate's tolerance is relative to |S|; after an update has deflated P along the rows of H the former exceeds the latter by orders of magnitude and
    # the filter refused its own second update (defect D13, triage/defects.py; repaired by 8fbcf08).  Decided here: the value handed to the gate and
    # recorded is (X + X^T) / 2 of the computed X -- in the normal form, the array stored under sensor_prediction_uncertainty carries the factor 1/2
    # on a sum whose two halves are each other's transposes.
    ctx.rule("GATE-SYM", "the computed innovation covariance is symmetrised, (X + X^T)/2, before it is validated and recorded")
    sfn = core.need(core.find_func(core.need(core.find_class(mod, "ExtendedKalmanFilter"), "python.ExtendedKalmanFilter"), "sensor_model"),
                    "ExtendedKalmanFilter.sensor_model")
    from .. import normast as _na
    sfn_n = _na.Normaliser(_na.class_resolver(mod, core.find_class(mod, "ExtendedKalmanFilter"), module_funcs="small")).function(sfn)
    gates = [c for c in ast.walk(sfn_n) if isinstance(c, ast.Call) and ast.unparse(c.func).split(".")[-1] == "assert_valid_covariance" and c.args]
    computed = [g for g in gates if not (isinstance(g.args[0], ast.Attribute) and g.args[0].attr == "data")]
    ngs = 0
    defs_ = {}
    for a in ast.walk(sfn_n):
        if isinstance(a, ast.Assign):
            for t in a.targets:
                if isinstance(t, ast.Name):
                    defs_.setdefault(t.id, []).append(a.value)

    def _symmetrised(e, depth=0):
        """(X + X.T) / 2, 0.5 * (X + X.transpose()), (X + X.T) * 0.5 -- X any expression, both halves the same X"""
        if isinstance(e, ast.Name) and len(defs_.get(e.id, [])) == 1 and depth < 3:
            return _symmetrised(defs_[e.id][0], depth + 1)
        half = None
        if isinstance(e, ast.BinOp) and isinstance(e.op, ast.Div) and isinstance(e.right, ast.Constant) and e.right.value in (2, 2.0):
            half = e.left
        if isinstance(e, ast.BinOp) and isinstance(e.op, ast.Mult):
            for a_, b_ in ((e.left, e.right), (e.right, e.left)):
                if isinstance(a_, ast.Constant) and a_.value == 0.5:
                    half = b_
        if not (isinstance(half, ast.BinOp) and isinstance(half.op, ast.Add)):
            return False

        def base(x):
            if isinstance(x, ast.Attribute) and x.attr == "T":
                return ast.unparse(x.value), True
            if isinstance(x, ast.Call) and isinstance(x.func, ast.Attribute) and x.func.attr == "transpose" and not x.args:
                return ast.unparse(x.func.value), True
            if isinstance(x, ast.Call) and ast.unparse(x.func) in ("np.transpose", "numpy.transpose") and len(x.args) == 1:
                return ast.unparse(x.args[0]), True
            return ast.unparse(x), False
        (l, lt), (r, rt) = base(half.left), base(half.right)
        return l == r and lt != rt
    for g in computed:
        ngs += 1
        a0 = g.args[0]
        oks = _symmetrised(a0)
        ctx.oblige("GATE-SYM", f"{F}:ExtendedKalmanFilter.sensor_model", f"gated `{ast.unparse(a0)[:40]}` is symmetrised", oks, file=F,
                   func="ExtendedKalmanFilter.sensor_model", construct=f"gate argument {ast.unparse(a0)[:40]}",
                   msg=f"the computed matrix `{ast.unparse(a0)[:60]}` is handed to assert_valid_covariance as the products left it: their rounding asymmetry "
                       f"is relative to |H|^2.|P|, the gate tolerates asymmetry relative to |S|; once an update has deflated P along H the filter refuses "
                       f"its own next update (AssertionError: Sensor Uncertainty)", line=g.lineno)
    ctx.floor("GATE-SYM", ngs, 1, "computed matrices gated in sensor_model (the innovation covariance)")
    # GATE-SITES: other eigen / cholesky / allclose-based asserts in the filter class
    cls = core.need(core.find_class(mod, "ExtendedKalmanFilter"), "python.ExtendedKalmanFilter")
    others = []
    for m in cls.body:
        if isinstance(m, ast.FunctionDef):
            for c in ast.walk(m):
                if isinstance(c, ast.Call) and any(k in ast.unparse(c.func) for k in ("linalg.eig", "linalg.cholesky", "allclose", "eigvals")):
                    others.append((m.name, ast.unparse(c)[:60], c.lineno))
    ctx.oblige("GATE-SITES", f"{F}:ExtendedKalmanFilter", f"{len(others)} direct eigen/symmetry tests in the filter methods", not others, file=F,
               func="ExtendedKalmanFilter", construct="extra gates:" + ";".join(o[0] for o in others),
               msg=f"the filter tests covariances outside assert_valid_covariance: {others}")
    # ... and the managed runtime has no validity gate of its own (a second gate with its own, e.g. absolute, tolerance refuses covariances the
    # filter itself produced)
    RTF = "py/formak/runtime.py"
    rt = ctx.parse(RTF)
    rothers = [(getattr(f_, "name", "?"), ast.unparse(c)[:60], c.lineno) for f_ in ast.walk(rt) if isinstance(f_, ast.FunctionDef) for c in ast.walk(f_)
               if isinstance(c, ast.Call) and any(k in ast.unparse(c.func) for k in ("linalg.eig", "linalg.cholesky", "allclose", "eigvals", "isclose", "array_equal"))]
    ctx.oblige("GATE-SITES", f"{RTF}:ManagedFilter", f"{len(rothers)} eigen/symmetry tests in the managed runtime", not rothers, file=RTF,
               func="ManagedFilter", construct="extra gates (runtime):" + ";".join(o[0] for o in rothers),
               msg=f"the managed runtime tests covariances with its own gate: {rothers} -- a valid (e.g. rank-deficient) covariance, even one the filter "
                   f"produced itself, is refused", line=rothers[0][2] if rothers else None)
    # ---- C++ side: the same structural clauses for the generated filter
    from .. import cppforms, genlayout, witness
    ctx.rule("Q-INIT", "every entry of the generated noise matrices is assigned (the declared matrices are uninitialised): Q, M are the configured, "
                       "symmetric matrices")
    g = genlayout.GenInfo(ctx, prog)
    scenarios.transfer(g.it, ctx, rules={"LAY-COVIDX"}, files={genlayout.CPPF})
    ctx.floor("Q-INIT", scenarios.count(g.it, "LAY-COVIDX"), 2, "sensor covariance assignment obligations")
    from .. import keymat
    cmod = prog.modules["cpp"]
    ccls = core.need(core.find_class(cmod, "ExtendedKalmanFilter"), "cpp.ExtendedKalmanFilter")
    cfn = core.need(core.find_func(ccls, "_translate_control_covariance"), "cpp._translate_control_covariance")
    ctx.rule("LAY-KEYMAT", "control covariance entries (i, j) and (j, i) both assigned from the name-keyed table")
    keymat.check_function(ctx, genlayout.CPPF, "ExtendedKalmanFilter._translate_control_covariance", cfn,
                          [a.arg for a in cfn.args.args if a.arg != "self"][0], mod=cmod, cls=ccls)
    w = witness.Witness(ctx)
    v = witness.Valuation(True, True)
    gf = cppforms.generated_filter_forms(ctx, w, v)
    tpl = "py/formak/templates/process_model.cpp"
    if "process" in gf:
        evc, _ = gf["process"]
        rets = [e for e in evc.events if e["kind"] == "return" and isinstance(e["value"], dict)]
        for e in rets:
            form = e["value"].get("covariance")
            bad = True
            if isinstance(form, MatForm):
                bad = any(not (c > 0 and len(wd) == 3 and wd[1][0] == "A" and wd[1][1] in ("P", "M") and wd[0][0] == "A" and wd[2][0] == "A"
                               and wd[0][1] == wd[2][1] and wd[0][2] is False and wd[2][2] is True) for wd, c in form.p.items())
            ctx.oblige("PSD-FORM", f"{tpl} [{v.tag}]", f"C++ predicted covariance = {form!r}", not bad, file=tpl, func="process_model",
                       construct="congruence form (C++)", msg=f"the generated C++ prediction {form!r} is not a sum of congruences X.A.X^T")
    else:
        ctx.error(f"{tpl}: generated process_model body not found in the witness")
    # the generated update: the same accepted shapes as UPD-SHAPE on the Python side; every Jacobian in it is the one evaluated at the prior state
    # (cppforms names a Jacobian evaluated elsewhere as a different atom, so a posterior mixing two linearisation points matches no accepted shape:
    # P - K.H'.P is not symmetric)
    tpls = "py/formak/templates/sensor_model.hpp"
    nupc = 0
    for targ, sev, _sp in gf.get("sensor", [])[:1]:
        for p_ in sev.problems:
            ctx.error(f"{tpls} [{v.tag}, {targ}]: {p_}")
        late = [e for e in sev.events if e["kind"] == "return" and "removeInnovation" not in e["guard"] and isinstance(e["value"], dict)]
        for e in late:
            form = e["value"].get("covariance")
            nupc += 1
            if not isinstance(form, MatForm):
                ctx.error(f"{tpls} [{v.tag}, {targ}]: the generated posterior covariance has no derivable normal form")
                continue
            ctx.oblige("UPD-SHAPE", f"{tpls} [{v.tag}, {targ}]", f"C++ posterior covariance = {form!r}", any(form == a for a in accepted), file=tpls,
                       func="sensor_model", construct="posterior covariance form (C++)",
                       msg=f"the generated C++ posterior covariance {form!r} is none of P - K.H.P, (I - K.H).P, Joseph form with one Jacobian H "
                           f"evaluated at the prior state")
    if not nupc:
        ctx.error(f"{tpls}: generated sensor_model update return not found in the witness")
    from . import c13 as _c13nv
    _c13nv.named_arrays(ctx, ("cov",))
    # no module-level / class-level mutable state shared between filters: one filter's construction or update must not reach another's (shared with C01)
    from . import c15 as _c15pp
    ctx.rule("PY-PURE", "no module-level / class-level mutable state shared between filters (shared with C01)")
    _c15pp.gen_pure(ctx, {"python": "py/formak/python.py", "common": "py/formak/common.py"}, rule="PY-PURE", floor=40)
    # every generated C++ expression (noise tables, Jacobians, models) goes through cpp.BasicBlock: its temporaries protocol, the CSE gate and the trusted
    # sympy signatures (shared with C02 / C08)
    from .. import tmprules as _tmpcpp
    for _rid, _t in (("TMP-3", "cpp.BasicBlock temporaries protocol"), ("TMP-4", "CSE flag gates only cse()/simplify()"), ("TRUST-SIG", "trusted sympy call signatures")):
        ctx.rule(_rid, _t)
    _tmpcpp.check_cpp_block(ctx, ctx.parse("py/formak/cpp.py"))
    return core.finish(ctx, explanation="dataflow queries on the validity gate + E3 congruence form of the prediction covariance "
                                        "(structural, necessary clauses only)", **META)
