"""AST normalisation in front of the structural (pattern) rules, so that they compare what a function does and not how its author
happened to arrange it.  All rewrites are semantics preserving:

  INLINE   a call of a resolvable helper (`x = self.h(a)`, `self.h(a)`, `return self.h(a)`) whose body has no early return / yield / nested
           def is replaced by the helper's statements, parameters bound by assignment, its locals renamed `h$name`
  SPLIT    `a, b = x, y` -> `a = x; b = y`
  EXIT     `if C: ...; <return|raise|continue|break>` followed by more statements -> `if C: ... else: <the rest>`
  POLAR    an if with both arms and a negative test (`not X`, `is not`, `not in`, `!=`) swaps its arms
  TAIL     a `continue` at the end of a loop body (or of an arm of its last if) is dropped; an if whose first arm became empty is negated
  ALIAS    a local assigned exactly once from a pure expression (names, attributes, subscripts, constants, arithmetic, len/str/int/float) is
           substituted at its uses and its assignment removed
"""
from __future__ import annotations

import ast
import copy
from typing import Callable, Dict, List, Optional

EXITS = (ast.Continue, ast.Return, ast.Raise, ast.Break)
PURE_CALLS = {"len", "str", "int", "float"}
FLIP = {ast.Is: ast.IsNot, ast.IsNot: ast.Is, ast.In: ast.NotIn, ast.NotIn: ast.In, ast.Eq: ast.NotEq, ast.NotEq: ast.Eq}


def is_negative(t) -> bool:
    if isinstance(t, ast.UnaryOp) and isinstance(t.op, ast.Not):
        return True
    return isinstance(t, ast.Compare) and len(t.ops) == 1 and isinstance(t.ops[0], (ast.IsNot, ast.NotIn, ast.NotEq))


def neg(t):
    if isinstance(t, ast.UnaryOp) and isinstance(t.op, ast.Not):
        return t.operand
    if isinstance(t, ast.Compare) and len(t.ops) == 1 and type(t.ops[0]) in FLIP:
        c = copy.deepcopy(t)
        c.ops = [FLIP[type(t.ops[0])]()]
        return c
    return ast.UnaryOp(ast.Not(), t)


def _ends_with_exit(block) -> bool:
    return bool(block) and isinstance(block[-1], EXITS)


def _pure(e) -> bool:
    for n in ast.walk(e):
        if isinstance(n, ast.Call):
            if not (isinstance(n.func, ast.Name) and n.func.id in PURE_CALLS):
                return False
        elif isinstance(n, (ast.Lambda, ast.Yield, ast.YieldFrom, ast.Await, ast.NamedExpr, ast.ListComp, ast.SetComp, ast.DictComp, ast.GeneratorExp,
                            ast.List, ast.Dict, ast.Set)):
            return False
    return True


def module_constants(mod: ast.Module) -> Dict[str, ast.expr]:
    """module-level NAME = <number / string / bool literal>, assigned exactly once and never declared global in a function"""
    counts: Dict[str, int] = {}
    vals: Dict[str, ast.expr] = {}
    for s in mod.body:
        tg = []
        if isinstance(s, ast.Assign):
            tg = [t for t in s.targets]
            v = s.value
        elif isinstance(s, ast.AnnAssign) and s.value is not None:
            tg, v = [s.target], s.value
        else:
            for n in ast.walk(s):
                if isinstance(n, ast.Global):
                    for nm in n.names:
                        counts[nm] = counts.get(nm, 0) + 2
            continue
        for t in tg:
            for n in ast.walk(t):
                if isinstance(n, ast.Name):
                    counts[n.id] = counts.get(n.id, 0) + 1
            if isinstance(t, ast.Name):
                lit = v
                if isinstance(lit, ast.UnaryOp) and isinstance(lit.op, ast.USub):
                    lit = lit.operand
                if isinstance(lit, ast.Constant) and isinstance(lit.value, (int, float, str, bool)):
                    vals[t.id] = v
    return {k: v for k, v in vals.items() if counts.get(k) == 1}


class Normaliser:
    def __init__(self, resolve_call: Optional[Callable[[ast.Call], Optional[ast.FunctionDef]]] = None, max_inline=4,
                 consts: Optional[Dict[str, ast.expr]] = None):
        self.consts = consts or {}
        self.resolve_call = resolve_call
        self.max_inline = max_inline
        self.inlined: List[str] = []
        self.k = 0
        self.caller_names: set = set()

    # ---------------------------------------------------------------- INLINE
    def _inlinable(self, h: ast.FunctionDef) -> bool:
        if h.args.vararg or h.args.kwarg:
            return False
        body = [s for s in h.body if not (isinstance(s, ast.Expr) and isinstance(s.value, ast.Constant))]
        for n in ast.walk(ast.Module(body=body, type_ignores=[])):
            if isinstance(n, (ast.Yield, ast.YieldFrom, ast.FunctionDef, ast.ClassDef, ast.Global, ast.Nonlocal)):
                return False
            if isinstance(n, ast.Lambda):
                # a lambda that only uses its own parameters (a sort key) captures nothing and moves freely
                own = {a.arg for a in n.args.posonlyargs + n.args.args + n.args.kwonlyargs}
                if any(isinstance(x, ast.Name) and x.id not in own for x in ast.walk(n.body)):
                    return False
        rets = [n for n in ast.walk(ast.Module(body=body, type_ignores=[])) if isinstance(n, ast.Return)]
        if len(rets) > 1 or (rets and rets[0] is not body[-1]):
            return False
        return True

    def _expand(self, call: ast.Call, h: ast.FunctionDef, target, depth) -> Optional[List[ast.stmt]]:
        if not self._inlinable(h) or depth > self.max_inline:
            return None
        deco = {ast.unparse(d) for d in h.decorator_list}
        pos = [a.arg for a in h.args.posonlyargs + h.args.args]
        is_method = isinstance(call.func, ast.Attribute) and isinstance(call.func.value, ast.Name) and call.func.value.id in ("self", "cls")
        keep = {}
        if is_method and "staticmethod" not in deco and pos:
            keep[pos[0]] = call.func.value.id       # self / cls stay what they are
            pos = pos[1:]
        if any(isinstance(a, ast.Starred) for a in call.args) or any(k.arg is None for k in call.keywords) or len(call.args) > len(pos):
            return None
        self.k += 1
        pre = f"{h.name}__{self.k}__"
        params = pos + [a.arg for a in h.args.kwonlyargs]
        bound = dict(zip(pos, call.args))
        for k in call.keywords:
            if k.arg not in params or k.arg in bound:
                return None
            bound[k.arg] = k.value
        defaults = dict(zip(pos[len(pos) - len(h.args.defaults):], h.args.defaults)) if h.args.defaults else {}
        defaults.update({a.arg: d for a, d in zip(h.args.kwonlyargs, h.args.kw_defaults) if d is not None})
        local = set(params)
        assigned = set()
        for n in ast.walk(h):
            if isinstance(n, ast.Name) and isinstance(n.ctx, ast.Store):
                local.add(n.id)
                assigned.add(n.id)
        body = copy.deepcopy([s for s in h.body if not (isinstance(s, ast.Expr) and isinstance(s.value, ast.Constant))])
        # names written back by the call: k-th returned name assigned to the caller's variable of the same name
        back = set()
        ret = body[-1] if body and isinstance(body[-1], ast.Return) else None
        if ret is not None and ret.value is not None and target not in (None, "return") and len(target) == 1:
            rv, tv = ret.value, target[0]
            rl = rv.elts if isinstance(rv, ast.Tuple) else [rv]
            tl = tv.elts if isinstance(tv, (ast.Tuple, ast.List)) else [tv]
            if len(rl) == len(tl):
                back = {r.id for r, t in zip(rl, tl) if isinstance(r, ast.Name) and isinstance(t, ast.Name) and r.id == t.id}
        same_arg = {p for p in params if isinstance(bound.get(p), ast.Name) and bound[p].id == p}
        keepname = set()
        for L in local:
            if L in same_arg and (L not in assigned or L in back):
                keepname.add(L)                    # the caller's variable itself: read only, or updated and handed back under the same name
            elif L not in params and L in back:
                keepname.add(L)                    # a result built under the name it is returned to
            elif L not in self.caller_names and L not in keep:
                keepname.add(L)                    # no clash with anything in the caller
        out: List[ast.stmt] = []
        for p in params:
            if p in same_arg and p in keepname:
                continue
            v = bound.get(p, defaults.get(p))
            if v is None:
                return None
            out.append(ast.Assign([ast.Name(p if p in keepname else pre + p, ast.Store())], copy.deepcopy(v), lineno=call.lineno))
        for s in body:
            for n in ast.walk(s):
                if isinstance(n, ast.Name):
                    if n.id in keep:
                        n.id = keep[n.id]
                    elif n.id in local and n.id not in keepname:
                        n.id = pre + n.id
        self.caller_names |= {(L if L in keepname else pre + L) for L in local}
        if body and isinstance(body[-1], ast.Return):
            r = body.pop()
            if target is not None and target != "return" and r.value is not None:
                body.append(ast.Assign([copy.deepcopy(t) for t in target], r.value, lineno=call.lineno))
            elif target == "return":
                body.append(r)
        elif target is not None and target != "return":
            body.append(ast.Assign([copy.deepcopy(t) for t in target], ast.Constant(None), lineno=call.lineno))
        self.inlined.append(h.name)
        return out + body

    # ---------------------------------------------------------------- FUSE (generator consumed by a for loop)
    def _fuse(self, loop: ast.For, h: ast.FunctionDef, depth) -> Optional[List[ast.stmt]]:
        """for T in self.g(a): BODY   ->   g's body with every `yield E` replaced by `T = E; BODY`
        (g only yields -- no send(), no return value, no try/finally around a yield; BODY has no break / return, so the generator always runs to its end)"""
        call = loop.iter
        if loop.orelse or depth > self.max_inline or h.args.vararg or h.args.kwarg:
            return None
        hb = [s for s in h.body if not (isinstance(s, ast.Expr) and isinstance(s.value, ast.Constant))]
        for n in ast.walk(ast.Module(body=hb, type_ignores=[])):
            if isinstance(n, (ast.YieldFrom, ast.FunctionDef, ast.Lambda, ast.ClassDef, ast.Try, ast.With, ast.Global, ast.Nonlocal)):
                return None
            if isinstance(n, ast.Return) and n.value is not None:
                return None
            if isinstance(n, ast.Yield) and n.value is None:
                return None
        for n in ast.walk(ast.Module(body=hb, type_ignores=[])):
            if isinstance(n, ast.Yield):
                pass
        # yields must be statements of their own
        ystmts = [n for n in ast.walk(ast.Module(body=hb, type_ignores=[])) if isinstance(n, ast.Expr) and isinstance(n.value, ast.Yield)]
        nyield = sum(1 for n in ast.walk(ast.Module(body=hb, type_ignores=[])) if isinstance(n, ast.Yield))
        if nyield != len(ystmts) or not ystmts:
            return None
        for n in ast.walk(ast.Module(body=loop.body, type_ignores=[])):
            if isinstance(n, (ast.Break, ast.Return, ast.Yield, ast.YieldFrom)):
                return None
        pos = [a.arg for a in h.args.posonlyargs + h.args.args]
        keep = {}
        is_method = isinstance(call.func, ast.Attribute) and isinstance(call.func.value, ast.Name) and call.func.value.id in ("self", "cls")
        if is_method and "staticmethod" not in {ast.unparse(d) for d in h.decorator_list} and pos:
            keep[pos[0]] = call.func.value.id
            pos = pos[1:]
        if any(isinstance(a, ast.Starred) for a in call.args) or any(k.arg is None for k in call.keywords) or len(call.args) > len(pos):
            return None
        params = pos + [a.arg for a in h.args.kwonlyargs]
        bound = dict(zip(pos, call.args))
        for k in call.keywords:
            if k.arg not in params or k.arg in bound:
                return None
            bound[k.arg] = k.value
        defaults = dict(zip(pos[len(pos) - len(h.args.defaults):], h.args.defaults)) if h.args.defaults else {}
        defaults.update({a.arg: d for a, d in zip(h.args.kwonlyargs, h.args.kw_defaults) if d is not None})
        self.k += 1
        pre = f"{h.name}__{self.k}__"
        local = set(params)
        for n in ast.walk(h):
            if isinstance(n, ast.Name) and isinstance(n.ctx, ast.Store):
                local.add(n.id)
        # a parameter that is handed the caller's variable of the same name keeps its name (no copy needed: the generator does not assign it)
        assigned_in_h = {n.id for n in ast.walk(h) if isinstance(n, ast.Name) and isinstance(n.ctx, ast.Store)}
        same = {p_ for p_ in params if isinstance(bound.get(p_), ast.Name) and bound[p_].id == p_ and p_ not in assigned_in_h}
        out: List[ast.stmt] = []
        for p_ in params:
            if p_ in same:
                continue
            v = bound.get(p_, defaults.get(p_))
            if v is None:
                return None
            out.append(ast.Assign([ast.Name(pre + p_, ast.Store())], copy.deepcopy(v), lineno=loop.lineno))
        body = copy.deepcopy(hb)

        def rename(node):
            for n in ast.walk(node):
                if isinstance(n, ast.Name):
                    if n.id in keep:
                        n.id = keep[n.id]
                    elif n.id in local and n.id not in same:
                        n.id = pre + n.id

        def subst(block):
            res = []
            for st in block:
                if isinstance(st, ast.Expr) and isinstance(st.value, ast.Yield):
                    res.append(ast.Assign([copy.deepcopy(loop.target)], st.value.value, lineno=loop.lineno))
                    res.extend(copy.deepcopy(loop.body))
                    continue
                for fld in ("body", "orelse"):
                    if hasattr(st, fld) and isinstance(getattr(st, fld), list):
                        setattr(st, fld, subst(getattr(st, fld)))
                res.append(st)
            return res
        for st in body:
            rename(st)
        body = subst(body)
        if body and isinstance(body[-1], ast.Return):
            body.pop()
        if any(isinstance(n, ast.Return) for st in body for n in ast.walk(st)):
            return None                           # an early bare return in the generator: not straight fusion
        self.inlined.append(h.name)
        return out + body

    def _hoist(self, s) -> Optional[List[ast.stmt]]:
        """`f(g(self.h(a)))` as a statement -> `t = self.h(a); f(g(t))` when self.h is the only resolvable call nested in the statement's value and
        everything evaluated before it is side-effect free (names, attributes, constants)"""
        if not isinstance(s, (ast.Assign, ast.Expr, ast.Return, ast.AugAssign)) or getattr(s, "value", None) is None:
            return None
        top = s.value
        cands = [c for c in ast.walk(top) if isinstance(c, ast.Call) and c is not top and self.resolve_call(c) is not None]
        if len(cands) != 1:
            return None
        c = cands[0]
        h = self.resolve_call(c)
        if not self._inlinable(h) or any(isinstance(n, ast.Yield) for n in ast.walk(h)):
            return None
        # other calls may only be ancestors of c (they run after it); arguments of c itself must be call-free
        parents = {}
        for n in ast.walk(top):
            for ch in ast.iter_child_nodes(n):
                parents[ch] = n
        anc = set()
        p_ = c
        while p_ in parents:
            p_ = parents[p_]
            anc.add(id(p_))
        for n in ast.walk(top):
            if isinstance(n, ast.Call) and n is not c and id(n) not in anc:
                return None
            if isinstance(n, (ast.Lambda, ast.ListComp, ast.SetComp, ast.DictComp, ast.GeneratorExp, ast.IfExp, ast.BoolOp, ast.NamedExpr, ast.Await)):
                return None
        self.k += 1
        tmp = f"{h.name}__r{self.k}"
        self.caller_names.add(tmp)

        class R(ast.NodeTransformer):
            def visit_Call(self_, n):
                if n is c:
                    return ast.Name(tmp, ast.Load())
                return self_.generic_visit(n)
        s2 = copy.copy(s)
        s2.value = R().visit(copy.deepcopy(top)) if False else None
        # replace by identity (deepcopy would lose `is`): rebuild with a marker
        c._hoist_marker = True

        class R2(ast.NodeTransformer):
            def visit_Call(self_, n):
                if getattr(n, "_hoist_marker", False):
                    return ast.Name(tmp, ast.Load())
                return self_.generic_visit(n)
        newtop = R2().visit(copy.deepcopy(top))
        del c._hoist_marker
        s2.value = newtop
        call_copy = copy.deepcopy(c)
        return [ast.copy_location(ast.Assign([ast.Name(tmp, ast.Store())], call_copy), s), s2]

    def inline_block(self, stmts, depth=0):
        if self.resolve_call is None:
            return stmts
        out = []
        for s in stmts:
            if isinstance(s, ast.For) and isinstance(s.iter, ast.Call):
                h = self.resolve_call(s.iter)
                if h is not None and any(isinstance(n, ast.Yield) for n in ast.walk(h)):
                    fused = self._fuse(s, h, depth)
                    if fused is not None:
                        out.extend(self.inline_block(fused, depth + 1))
                        continue
            hoisted = self._hoist(s)
            if hoisted is not None:
                out.extend(self.inline_block(hoisted, depth))
                continue
            call, target = None, None
            if isinstance(s, ast.Assign) and isinstance(s.value, ast.Call):
                call, target = s.value, s.targets
            elif isinstance(s, ast.Expr) and isinstance(s.value, ast.Call):
                call, target = s.value, None
            elif isinstance(s, ast.Return) and isinstance(s.value, ast.Call):
                call, target = s.value, "return"
            h = self.resolve_call(call) if call is not None else None
            if h is not None:
                ex = self._expand(call, h, target if target != "return" else "return", depth)
                if ex is not None:
                    if target == "return" and not (ex and isinstance(ex[-1], ast.Return)):
                        ex.append(ast.Return(None))
                    out.extend(self.inline_block(ex, depth + 1))
                    continue
            for fld in ("body", "orelse", "finalbody"):
                if hasattr(s, fld) and isinstance(getattr(s, fld), list) and not isinstance(s, (ast.FunctionDef, ast.ClassDef)):
                    setattr(s, fld, self.inline_block(getattr(s, fld), depth))
            if isinstance(s, ast.Try):
                for hd in s.handlers:
                    hd.body = self.inline_block(hd.body, depth)
            out.append(s)
        return out

    # ---------------------------------------------------------------- SPLIT / EXIT / POLAR / TAIL
    def block(self, stmts, in_loop=False) -> List[ast.stmt]:
        out: List[ast.stmt] = []
        for i, s in enumerate(stmts):
            if isinstance(s, ast.Assign) and len(s.targets) == 1 and isinstance(s.targets[0], (ast.Tuple, ast.List)) \
                    and isinstance(s.value, (ast.Tuple, ast.List)) and len(s.targets[0].elts) == len(s.value.elts) \
                    and not any(isinstance(e, ast.Starred) for e in s.targets[0].elts + s.value.elts):
                # only when no target is read by a later element (a, b = b, a must stay)
                names = [ast.unparse(t) for t in s.targets[0].elts]
                reads = [{ast.unparse(n) for n in ast.walk(v) if isinstance(n, (ast.Name, ast.Attribute, ast.Subscript))} for v in s.value.elts]
                if not any(names[a] in reads[b] for a in range(len(names)) for b in range(a + 1, len(names))):
                    for t, v in zip(s.targets[0].elts, s.value.elts):
                        if isinstance(t, ast.Name) and isinstance(v, ast.Name) and t.id == v.id:
                            continue                      # x = x
                        out.append(ast.copy_location(ast.Assign([t], v), s))
                    continue
            if isinstance(s, ast.Assign) and len(s.targets) == 1 and isinstance(s.targets[0], ast.Name) and isinstance(s.value, ast.Name) \
                    and s.targets[0].id == s.value.id:
                continue
            if isinstance(s, ast.If):
                s = copy.copy(s)
                s.body = self.block(s.body, in_loop)
                s.orelse = self.block(s.orelse, in_loop)
                rest = stmts[i + 1:]
                if not s.orelse and _ends_with_exit(s.body) and rest:
                    s.orelse = self.block(rest, in_loop)
                    out.extend(self.canon_if(s))
                    return out
                out.extend(self.canon_if(s))
                continue
            if isinstance(s, (ast.For, ast.While)):
                s = copy.copy(s)
                s.body = self.strip_tail_continue(self.block(s.body, True))
                s.orelse = self.block(s.orelse, in_loop)
                out.append(s)
                continue
            if isinstance(s, (ast.With,)):
                s = copy.copy(s)
                s.body = self.block(s.body, in_loop)
                out.append(s)
                continue
            if isinstance(s, ast.Try):
                s = copy.copy(s)
                s.body = self.block(s.body, in_loop)
                s.orelse = self.block(s.orelse, in_loop)
                s.finalbody = self.block(s.finalbody, in_loop)
                hs = []
                for hd in s.handlers:
                    hd = copy.copy(hd)
                    hd.body = self.block(hd.body, in_loop)
                    hs.append(hd)
                s.handlers = hs
                out.append(s)
                continue
            out.append(s)
        return out

    def canon_if(self, s: ast.If) -> List[ast.stmt]:
        body = [x for x in s.body if not isinstance(x, ast.Pass)]
        orelse = [x for x in s.orelse if not isinstance(x, ast.Pass)]
        test = s.test
        # an arm that only raises is a guard: `if <bad>: raise` followed, un-nested, by the other arm
        if len(orelse) == 1 and isinstance(orelse[0], ast.Raise) and body:
            return [ast.copy_location(ast.If(neg(test), orelse, []), s)] + body
        if len(body) == 1 and isinstance(body[0], ast.Raise) and orelse:
            return [ast.copy_location(ast.If(test, body, []), s)] + orelse
        if not body and orelse:
            test, body, orelse = neg(test), orelse, []
        elif body and orelse and is_negative(test):
            test, body, orelse = neg(test), orelse, body
        n = ast.If(test, body or [ast.Pass()], orelse)
        return [ast.copy_location(n, s)]

    def strip_tail_continue(self, block):
        block = list(block)
        while block and isinstance(block[-1], ast.Continue):
            block.pop()
        if block and isinstance(block[-1], ast.If):
            s = block[-1]
            b = self.strip_tail_continue(s.body)
            o = self.strip_tail_continue(s.orelse)
            b = [x for x in b if not isinstance(x, ast.Pass)]
            o = [x for x in o if not isinstance(x, ast.Pass)]
            if not b and not o:
                block.pop()
            else:
                block[-1:] = self.canon_if(ast.copy_location(ast.If(s.test, b or [ast.Pass()], o), s))
        return block

    # ---------------------------------------------------------------- VERSION
    def version_block(self, stmts):
        """`v = a; ...; v = f(v)` at the same nesting level: the first definition and its uses up to the redefinition become `v#1`
        (only plain statements in between: no loop / if / try that assigns or could skip), so that each version is a single assignment"""
        out = list(stmts)
        for s in out:
            for fld in ("body", "orelse", "finalbody"):
                if hasattr(s, fld) and isinstance(getattr(s, fld), list) and not isinstance(s, (ast.FunctionDef, ast.ClassDef)):
                    setattr(s, fld, self.version_block(getattr(s, fld)))
        last_def: Dict[str, int] = {}
        for i, s in enumerate(out):
            simple = isinstance(s, (ast.Assign, ast.AugAssign, ast.AnnAssign, ast.Expr, ast.Assert, ast.Pass))
            if not simple:
                # a compound statement: forget versions of every name it may assign or read across iterations
                touched = {n.id for n in ast.walk(s) if isinstance(n, ast.Name)}
                for nm in list(last_def):
                    if nm in touched:
                        del last_def[nm]
                continue
            name_targets = [t for t in s.targets if isinstance(t, ast.Name)] if isinstance(s, ast.Assign) else []
            if isinstance(s, ast.Assign) and len(name_targets) == 1 and all(isinstance(t, (ast.Name, ast.Subscript, ast.Attribute)) for t in s.targets):
                # `x = e` or `obj[k] = x = e`: one local is defined here
                nm = name_targets[0].id
                if nm in last_def:
                    j = last_def[nm]
                    self.k += 1
                    new = f"{nm}__v{self.k}"
                    # rename the earlier definition and every use after it up to and including this statement's right-hand side
                    for t in out[j].targets:
                        if isinstance(t, ast.Name) and t.id == nm:
                            t.id = new
                    for k2 in range(j + 1, i + 1):
                        st = out[k2]
                        for n in ast.walk(st.value if k2 == i else st):
                            if isinstance(n, ast.Name) and n.id == nm and isinstance(n.ctx, ast.Load):
                                n.id = new
                    self.caller_names.add(new)
                last_def[nm] = i
            else:
                # any other store to a name (tuple target, augmented) ends its version chain
                for n in ast.walk(s):
                    if isinstance(n, ast.Name) and isinstance(n.ctx, ast.Store) and n.id in last_def:
                        del last_def[n.id]
                if isinstance(s, ast.AugAssign) and isinstance(s.target, ast.Name):
                    last_def.pop(s.target.id, None)
        return out

    # ---------------------------------------------------------------- ALIAS
    def alias(self, fn: ast.FunctionDef):
        counts: Dict[str, int] = {}
        defs: Dict[str, ast.Assign] = {}
        params = {a.arg for a in fn.args.posonlyargs + fn.args.args + fn.args.kwonlyargs}
        if fn.args.vararg:
            params.add(fn.args.vararg.arg)
        if fn.args.kwarg:
            params.add(fn.args.kwarg.arg)
        for n in ast.walk(fn):
            if isinstance(n, ast.Name) and isinstance(n.ctx, (ast.Store, ast.Del)):
                counts[n.id] = counts.get(n.id, 0) + 1
            if isinstance(n, ast.Assign) and len(n.targets) == 1 and isinstance(n.targets[0], ast.Name):
                defs[n.targets[0].id] = n
            if isinstance(n, ast.AugAssign) and isinstance(n.target, ast.Name):
                counts[n.target.id] = counts.get(n.target.id, 0) + 1
        for p in params:
            counts[p] = counts.get(p, 0) + 1
        stable = lambda e: all(counts.get(x.id, 0) <= 1 for x in ast.walk(e) if isinstance(x, ast.Name))
        subst = {nm: d.value for nm, d in defs.items() if counts.get(nm) == 1 and nm not in params and _pure(d.value) and stable(d.value)}
        # module-level constants that the function does not shadow
        for nm, v in self.consts.items():
            if nm not in counts and nm not in subst:
                subst[nm] = v
        if not subst:
            return fn

        def resolve(e, depth=0):
            if depth > 8:
                return e

            class R(ast.NodeTransformer):
                def visit_Name(self, n):
                    if isinstance(n.ctx, ast.Load) and n.id in subst:
                        return resolve(copy.deepcopy(subst[n.id]), depth + 1)
                    return n

                def _comp(self, n):
                    bound = {x.id for g in n.generators for x in ast.walk(g.target) if isinstance(x, ast.Name)}
                    if bound & set(subst):
                        return n
                    return self.generic_visit(n)
                visit_ListComp = visit_SetComp = visit_GeneratorExp = visit_DictComp = _comp
            return R().visit(e)
        dead = {id(defs[nm]) for nm in subst if nm in defs}

        class Drop(ast.NodeTransformer):
            def visit_Assign(self, n):
                if id(n) in dead:
                    return None
                return resolve(n)

            def generic_visit(self, n):
                if isinstance(n, ast.stmt) and not isinstance(n, (ast.FunctionDef, ast.ClassDef)):
                    pass
                return super().generic_visit(n)
        out = copy.copy(fn)
        out.body = []
        for s in fn.body:
            r = self._alias_stmt(s, dead, resolve)
            out.body.extend(r)
        return out

    def _alias_stmt(self, s, dead, resolve):
        if id(s) in dead:
            return []
        s = copy.copy(s)
        for fld in ("body", "orelse", "finalbody"):
            if hasattr(s, fld) and isinstance(getattr(s, fld), list) and not isinstance(s, (ast.FunctionDef, ast.ClassDef)):
                nb = []
                for x in getattr(s, fld):
                    nb.extend(self._alias_stmt(x, dead, resolve))
                if fld == "body" and not nb:
                    nb = [ast.Pass()]
                setattr(s, fld, nb)
        if isinstance(s, ast.Try):
            hs = []
            for hd in s.handlers:
                hd = copy.copy(hd)
                nb = []
                for x in hd.body:
                    nb.extend(self._alias_stmt(x, dead, resolve))
                hd.body = nb or [ast.Pass()]
                hs.append(hd)
            s.handlers = hs
        # expressions directly on this statement
        for fld, v in list(ast.iter_fields(s)):
            if isinstance(v, ast.expr):
                setattr(s, fld, resolve(copy.deepcopy(v)))
            elif isinstance(v, list) and v and all(isinstance(x, ast.expr) for x in v):
                setattr(s, fld, [resolve(copy.deepcopy(x)) for x in v])
        return [s]

    # ---------------------------------------------------------------- driver
    def function(self, fn: ast.FunctionDef) -> ast.FunctionDef:
        out = copy.deepcopy(fn)
        self.caller_names = {n.id for n in ast.walk(fn) if isinstance(n, ast.Name)} | {a.arg for a in ast.walk(fn) if isinstance(a, ast.arg)}
        body = [s for s in out.body if not (isinstance(s, ast.Expr) and isinstance(s.value, ast.Constant) and isinstance(s.value.value, str))]
        body = self.inline_block(body)
        out.body = self.block(body)
        out.body = self.version_block(out.body)
        out = self.alias(out)
        out.body = self.block(out.body)
        ast.fix_missing_locations(out)
        return out


def inline_only(fn: ast.FunctionDef, resolve_call) -> ast.FunctionDef:
    """INLINE + FUSE only (for analyses that do their own control-flow reasoning)"""
    nz = Normaliser(resolve_call)
    out = copy.deepcopy(fn)
    nz.caller_names = {n.id for n in ast.walk(fn) if isinstance(n, ast.Name)} | {a.arg for a in ast.walk(fn) if isinstance(a, ast.arg)}
    out.body = nz.inline_block([s for s in out.body if not (isinstance(s, ast.Expr) and isinstance(s.value, ast.Constant) and isinstance(s.value.value, str))])
    ast.fix_missing_locations(out)
    out._inlined = list(nz.inlined)
    return out


def class_resolver(mod: ast.Module, cls: Optional[ast.ClassDef] = None, exclude=(), module_funcs=True):
    """resolve self.m(...) / cls.m(...) in `cls` (and module-level base classes) and f(...) to module-level functions"""
    classes = {c.name: c for c in mod.body if isinstance(c, ast.ClassDef)}
    funcs = {f.name: f for f in mod.body if isinstance(f, ast.FunctionDef)}

    def methods(c, seen=()):
        out = {}
        if c is None or c.name in seen:
            return out
        for b in c.bases:
            bn = ast.unparse(b).split(".")[-1]
            if bn in classes:
                out.update(methods(classes[bn], seen + (c.name,)))
        out.update({m.name: m for m in c.body if isinstance(m, ast.FunctionDef)})
        return out
    ms = methods(cls)

    def resolve(call: ast.Call):
        f = call.func
        if isinstance(f, ast.Attribute) and isinstance(f.value, ast.Name) and f.value.id in ("self", "cls"):
            return None if f.attr in exclude else ms.get(f.attr)
        if isinstance(f, ast.Name) and module_funcs:
            return None if f.id in exclude else funcs.get(f.id)
        return None
    return resolve
