"""AST normalisation in front of the structural (pattern) rules, so that they compare what a function does and not how its author
happened to arrange it.  All rewrites are semantics preserving:

  INLINE   a call of a resolvable helper (`x = self.h(a)`, `self.h(a)`, `return self.h(a)`) whose body has no early return / yield / nested
           def is replaced by the helper's statements, parameters bound by assignment, its locals renamed `h$name`
  SPLIT    `a, b = x, y` -> `a = x; b = y`
  EXIT     `if C: ...; <return|raise|continue|break>` followed by more statements -> `if C: ... else: <the rest>`
  POLAR    an if with both arms and a negative test (`not X`, `is not`, `not in`, `!=`) swaps its arms
  TAIL     a `continue` at the end of a loop body (or of an arm of its last if) is dropped; an if whose first arm became empty is negated
  ALIAS    a local assigned exactly once from a pure expression (names, attributes, subscripts, constants, arithmetic, len/str/int/float) is
           substituted at its uses and its assignment removed
"""
from __future__ import annotations

import ast
import copy
from typing import Callable, Dict, List, Optional

EXITS = (ast.Continue, ast.Return, ast.Raise, ast.Break)
PURE_CALLS = {"len", "str", "int", "float"}
FLIP = {ast.Is: ast.IsNot, ast.IsNot: ast.Is, ast.In: ast.NotIn, ast.NotIn: ast.In, ast.Eq: ast.NotEq, ast.NotEq: ast.Eq}


def is_negative(t) -> bool:
    if isinstance(t, ast.UnaryOp) and isinstance(t.op, ast.Not):
        return True
    return isinstance(t, ast.Compare) and len(t.ops) == 1 and isinstance(t.ops[0], (ast.IsNot, ast.NotIn, ast.NotEq))


def neg(t):
    if isinstance(t, ast.UnaryOp) and isinstance(t.op, ast.Not):
        return t.operand
    if isinstance(t, ast.Compare) and len(t.ops) == 1 and type(t.ops[0]) in FLIP:
        c = copy.deepcopy(t)
        c.ops = [FLIP[type(t.ops[0])]()]
        return c
    return ast.UnaryOp(ast.Not(), t)


def _ends_with_exit(block) -> bool:
    return bool(block) and isinstance(block[-1], EXITS)


def _pure(e) -> bool:
    for n in ast.walk(e):
        if isinstance(n, ast.Call):
            if not (isinstance(n.func, ast.Name) and n.func.id in PURE_CALLS):
                return False
        elif isinstance(n, (ast.Lambda, ast.Yield, ast.YieldFrom, ast.Await, ast.NamedExpr, ast.ListComp, ast.SetComp, ast.DictComp, ast.GeneratorExp,
                            ast.List, ast.Dict, ast.Set)):
            return False
    return True


def plain_annassign(stmts: List[ast.stmt]) -> List[ast.stmt]:
    """`x: T = e` -> `x = e` (recursively); a bare annotation `x: T` is dropped"""
    out = []
    for s in stmts:
        if isinstance(s, ast.AnnAssign) and isinstance(s.target, ast.Name) and s.simple:
            if s.value is None:
                continue
            s = ast.copy_location(ast.Assign([s.target], s.value), s)
        for fld in ("body", "orelse", "finalbody"):
            v = getattr(s, fld, None)
            if isinstance(v, list) and v and all(isinstance(x, ast.stmt) for x in v):
                setattr(s, fld, plain_annassign(v) or [ast.Pass()])
        out.append(s)
    return out


def split_assign(stmts: List[ast.stmt], namedtuples=None) -> List[ast.stmt]:
    """SPLIT alone: `a, b = x, y` -> `a = x; b = y` when no target is read by a later element (recursively); with `namedtuples`, a positional
    construction `a, b = NT(x, y)` of a known namedtuple splits the same way"""
    out = []
    for s in stmts:
        if namedtuples and isinstance(s, ast.Assign) and len(s.targets) == 1 and isinstance(s.targets[0], (ast.Tuple, ast.List)) \
                and isinstance(s.value, ast.Call) and isinstance(s.value.func, ast.Name) and s.value.func.id in namedtuples \
                and len(namedtuples[s.value.func.id]) == len(s.targets[0].elts) \
                and not any(isinstance(a_, ast.Starred) for a_ in s.value.args) and all(k.arg is not None for k in s.value.keywords):
            # positional and / or keyword construction: the fields in declaration order (keyword values are evaluated in the order written;
            # re-ordering them is only done when they are call-free)
            fields = list(namedtuples[s.value.func.id])
            vals = dict(zip(fields, s.value.args))
            okc = len(s.value.args) <= len(fields)
            for k in s.value.keywords:
                if k.arg in vals or k.arg not in fields:
                    okc = False
                vals[k.arg] = k.value
            in_order = [k.arg for k in s.value.keywords] == fields[len(s.value.args):]
            pure_kw = all(not any(isinstance(x, ast.Call) and not (isinstance(x.func, ast.Name) and x.func.id in ("abs", "floor", "len", "float", "int"))
                                  for x in ast.walk(k.value)) for k in s.value.keywords)
            if okc and len(vals) == len(fields) and (in_order or pure_kw):
                s = ast.copy_location(ast.Assign([s.targets[0]], ast.Tuple([vals[f] for f in fields], ast.Load())), s)
        if isinstance(s, ast.Assign) and len(s.targets) == 1 and isinstance(s.targets[0], (ast.Tuple, ast.List)) \
                and isinstance(s.value, (ast.Tuple, ast.List)) and len(s.targets[0].elts) == len(s.value.elts) \
                and not any(isinstance(e, ast.Starred) for e in s.targets[0].elts + s.value.elts):
            names = [ast.unparse(t) for t in s.targets[0].elts]
            reads = [{ast.unparse(n) for n in ast.walk(v) if isinstance(n, (ast.Name, ast.Attribute, ast.Subscript))} for v in s.value.elts]
            if not any(names[a] in reads[b] for a in range(len(names)) for b in range(a + 1, len(names))):
                for t, v in zip(s.targets[0].elts, s.value.elts):
                    out.append(ast.copy_location(ast.Assign([t], v), s))
                continue
        for fld in ("body", "orelse", "finalbody"):
            v = getattr(s, fld, None)
            if isinstance(v, list) and v and all(isinstance(x, ast.stmt) for x in v):
                setattr(s, fld, split_assign(v, namedtuples))
        out.append(s)
    return out


OPERATOR_FUNCS = {"operator.add": ast.Add, "operator.mul": ast.Mult, "operator.sub": ast.Sub, "operator.matmul": ast.MatMult}


def resolve_unset(fn) -> int:
    """decide `x if acc is FOLD_UNSET__ else y` (the first-element test of a fold without an initial value) wherever the statement's position fixes
    whether anything has been folded yet: straight-line after the marker assignment -> x; after any folding step, or inside a loop entered after
    one -> y.  A test whose outcome depends on the data stays as it is."""
    n = [0]

    def is_marker(st):
        return isinstance(st, ast.Assign) and len(st.targets) == 1 and isinstance(st.targets[0], ast.Name) and isinstance(st.value, ast.Name) \
            and st.value.id == "FOLD_UNSET__"

    def step_of(st, acc):
        return isinstance(st, ast.Assign) and len(st.targets) == 1 and isinstance(st.targets[0], ast.Name) and st.targets[0].id == acc \
            and isinstance(st.value, ast.IfExp) and isinstance(st.value.test, ast.Compare) and len(st.value.test.ops) == 1 \
            and isinstance(st.value.test.ops[0], ast.Is) and isinstance(st.value.test.left, ast.Name) and st.value.test.left.id == acc \
            and isinstance(st.value.test.comparators[0], ast.Name) and st.value.test.comparators[0].id == "FOLD_UNSET__"

    def run(stmts, acc, state):
        """state: 'unset' | 'set' | '?'; returns the state after the block"""
        for st in stmts:
            if step_of(st, acc):
                if state == "unset":
                    st.value = st.value.body
                    n[0] += 1
                elif state == "set":
                    st.value = st.value.orelse
                    n[0] += 1
                state = "set"
            elif isinstance(st, (ast.For, ast.While)):
                inner = run(st.body, acc, state if state == "set" else "?")
                state = state if inner == state else ("set" if state == "set" else "?")
            elif isinstance(st, ast.If):
                a = run(st.body, acc, state)
                b = run(st.orelse, acc, state)
                state = a if a == b else "?"
            elif isinstance(st, (ast.With, ast.Try)):
                state = run(st.body, acc, state)
                if isinstance(st, ast.Try):
                    state = "?" if any(step_of(x, acc) for x in ast.walk(st)) else state
            elif any(isinstance(x, ast.Name) and x.id == acc and isinstance(x.ctx, ast.Store) for x in ast.walk(st)):
                state = "?"
        return state

    def blocks(stmts):
        for i, st in enumerate(stmts):
            if is_marker(st):
                run(stmts[i + 1:], st.targets[0].id, "unset")
            for fld in ("body", "orelse", "finalbody"):
                v = getattr(st, fld, None)
                if isinstance(v, list) and v and all(isinstance(x, ast.stmt) for x in v) and not isinstance(st, (ast.FunctionDef, ast.ClassDef)):
                    blocks(v)
    if not any(isinstance(x, ast.Name) and x.id == "FOLD_UNSET__" for x in ast.walk(fn)):
        return 0
    blocks(fn.body)
    # a marker nothing tests any more is dead
    def prune(stmts):
        out = []
        for st in stmts:
            if is_marker(st):
                acc = st.targets[0].id
                if not any(isinstance(x, ast.Compare) and isinstance(x.left, ast.Name) and x.left.id == acc and isinstance(x.comparators[0], ast.Name)
                           and x.comparators[0].id == "FOLD_UNSET__" for x in ast.walk(fn)):
                    continue
            for fld in ("body", "orelse", "finalbody"):
                v = getattr(st, fld, None)
                if isinstance(v, list) and v and all(isinstance(x, ast.stmt) for x in v) and not isinstance(st, (ast.FunctionDef, ast.ClassDef)):
                    setattr(st, fld, prune(v) or [ast.Pass()])
            out.append(st)
        return out
    fn.body = prune(fn.body)
    return n[0]


def reduce_loops(fn: ast.FunctionDef) -> int:
    """REDUCE (in place): `T = reduce(F, IT, INIT)` (functools' three-argument form, F a plain name) becomes
    `acc = INIT; for e in IT: acc = F(acc, e); T = acc` -- the definition of the fold.  Returns the number of folds rewritten."""
    names = {n.id for n in ast.walk(fn) if isinstance(n, ast.Name)} | {a.arg for a in ast.walk(fn) if isinstance(a, ast.arg)}
    k = [0]

    def conv(stmts):
        out = []
        for st in stmts:
            for fld in ("body", "orelse", "finalbody"):
                v = getattr(st, fld, None)
                if isinstance(v, list) and v and all(isinstance(x, ast.stmt) for x in v) and not isinstance(st, (ast.FunctionDef, ast.ClassDef)):
                    setattr(st, fld, conv(v))
            c = st.value if isinstance(st, (ast.Assign, ast.Return)) and isinstance(getattr(st, "value", None), ast.Call) else None
            if c is not None and ast.unparse(c.func) in ("reduce", "functools.reduce") and len(c.args) in (2, 3) and not c.keywords \
                    and (isinstance(c.args[0], ast.Name) or ast.unparse(c.args[0]) in OPERATOR_FUNCS) and not any(isinstance(a_, ast.Starred) for a_ in c.args):
                k[0] += 1
                acc, el = f"fold__{k[0]}", f"fold_e__{k[0]}"
                while acc in names or el in names:
                    k[0] += 1
                    acc, el = f"fold__{k[0]}", f"fold_e__{k[0]}"
                step = ast.Call(c.args[0], [ast.Name(acc, ast.Load()), ast.Name(el, ast.Load())], [])
                if ast.unparse(c.args[0]) in OPERATOR_FUNCS:
                    step = ast.BinOp(ast.Name(acc, ast.Load()), OPERATOR_FUNCS[ast.unparse(c.args[0])](), ast.Name(el, ast.Load()))
                if len(c.args) == 2:
                    # no initial value: the first element starts the fold.  FOLD_UNSET__ marks "nothing folded yet"; resolve_unset decides the test
                    # wherever the position in the code fixes it (and the rest stays visibly undecided)
                    init = ast.Name("FOLD_UNSET__", ast.Load())
                    step = ast.IfExp(ast.Compare(ast.Name(acc, ast.Load()), [ast.Is()], [ast.Name("FOLD_UNSET__", ast.Load())]), ast.Name(el, ast.Load()), step)
                else:
                    init = c.args[2]
                new = [ast.Assign([ast.Name(acc, ast.Store())], init),
                       ast.For(ast.Name(el, ast.Store()), c.args[1], [ast.Assign([ast.Name(acc, ast.Store())], step)], []),
                       ast.Assign(st.targets, ast.Name(acc, ast.Load())) if isinstance(st, ast.Assign) else ast.Return(ast.Name(acc, ast.Load()))]
                out.extend(ast.copy_location(x, st) for x in new)
                continue
            out.append(st)
        return out
    if not any(isinstance(n, ast.Call) and ast.unparse(n.func) in ("reduce", "functools.reduce") for n in ast.walk(fn)):
        return 0
    fn.body = conv(fn.body)
    ast.fix_missing_locations(fn)
    return k[0]


def tuple_scalarise(body: List[ast.stmt]) -> List[ast.stmt]:
    """TUPLE-SPLIT: a local whose every store is `v = (X0, .., Xn-1)` (a display of one arity) and whose every read is `*v` in a call, an unpacking
    `a, .., z = v` of that arity or `v[<const>]`, is n separate locals: stores become `v__0, .., v__n-1 = X0, .., Xn-1`, the reads name them."""
    mod = ast.Module(body=body, type_ignores=[])
    parents: Dict[int, ast.AST] = {}
    for n in ast.walk(mod):
        for ch in ast.iter_child_nodes(n):
            parents[id(ch)] = n
    arity: Dict[str, int] = {}
    bad = set()
    for n in ast.walk(mod):
        if isinstance(n, (ast.FunctionDef, ast.Lambda, ast.ClassDef)) and n is not mod:
            for x in ast.walk(n):
                if isinstance(x, ast.Name):
                    bad.add(x.id)         # touched inside a nested scope: leave alone
        if isinstance(n, ast.arg):
            bad.add(n.arg)
    for n in ast.walk(mod):
        if not isinstance(n, ast.Name):
            continue
        par = parents.get(id(n))
        if isinstance(n.ctx, ast.Store):
            if isinstance(par, ast.Assign) and len(par.targets) == 1 and par.targets[0] is n and isinstance(par.value, ast.Tuple) \
                    and not any(isinstance(e, ast.Starred) for e in par.value.elts) and arity.setdefault(n.id, len(par.value.elts)) == len(par.value.elts):
                continue
            bad.add(n.id)
        elif isinstance(n.ctx, ast.Load):
            if isinstance(par, ast.Starred) and isinstance(parents.get(id(par)), ast.Call) and par in parents[id(par)].args:
                continue
            if isinstance(par, ast.Assign) and par.value is n and len(par.targets) == 1 and isinstance(par.targets[0], (ast.Tuple, ast.List)) \
                    and not any(isinstance(e, ast.Starred) for e in par.targets[0].elts):
                if arity.get(n.id, len(par.targets[0].elts)) != len(par.targets[0].elts):
                    bad.add(n.id)
                continue
            if isinstance(par, ast.Subscript) and par.value is n and isinstance(par.slice, ast.Constant) and isinstance(par.slice.value, int) \
                    and isinstance(par.ctx, ast.Load) and par.slice.value >= 0:
                continue
            bad.add(n.id)
        else:
            bad.add(n.id)
    todo = {k: v for k, v in arity.items() if k not in bad and v >= 1}
    if not todo:
        return body
    allnames = {n.id for n in ast.walk(mod) if isinstance(n, ast.Name)}
    for k in list(todo):
        if any(f"{k}__{i}" in allnames for i in range(todo[k])):
            del todo[k]
    if not todo:
        return body

    class T(ast.NodeTransformer):
        def visit_Assign(self, a):
            if len(a.targets) == 1 and isinstance(a.targets[0], ast.Name) and a.targets[0].id in todo and isinstance(a.value, ast.Tuple):
                k = a.targets[0].id
                self.generic_visit(a.value)
                return ast.copy_location(ast.Assign([ast.Tuple([ast.Name(f"{k}__{i}", ast.Store()) for i in range(todo[k])], ast.Store())], a.value), a)
            if isinstance(a.value, ast.Name) and a.value.id in todo and isinstance(a.targets[0], (ast.Tuple, ast.List)):
                k = a.value.id
                return ast.copy_location(ast.Assign(a.targets, ast.Tuple([ast.Name(f"{k}__{i}", ast.Load()) for i in range(todo[k])], ast.Load())), a)
            return self.generic_visit(a)

        def visit_Call(self, c):
            self.generic_visit(c)
            args = []
            for a_ in c.args:
                if isinstance(a_, ast.Starred) and isinstance(a_.value, ast.Name) and a_.value.id in todo:
                    args.extend(ast.Name(f"{a_.value.id}__{i}", ast.Load()) for i in range(todo[a_.value.id]))
                else:
                    args.append(a_)
            c.args = args
            return c

        def visit_Subscript(self, sub):
            if isinstance(sub.value, ast.Name) and sub.value.id in todo and isinstance(sub.slice, ast.Constant) and isinstance(sub.slice.value, int):
                if sub.slice.value < todo[sub.value.id]:
                    return ast.copy_location(ast.Name(f"{sub.value.id}__{sub.slice.value}", ast.Load()), sub)
            return self.generic_visit(sub)
    out = [T().visit(st) for st in body]
    for st in out:
        ast.fix_missing_locations(st)
    return split_assign(out)


def with_local_defs(fn: ast.FunctionDef, resolve_call):
    """a resolver that also resolves `name(...)` to a function defined (once) in fn's own body -- a local closure.  Inlining it is exact: a
    closure reads the enclosing function's variables at call time, which is what the inlined body does."""
    stores: Dict[str, int] = {}
    for n in ast.walk(fn):
        if isinstance(n, ast.Name) and isinstance(n.ctx, (ast.Store, ast.Del)):
            stores[n.id] = stores.get(n.id, 0) + 1
        elif isinstance(n, (ast.FunctionDef, ast.ClassDef)) and n is not fn:
            stores[n.name] = stores.get(n.name, 0) + 1
        elif isinstance(n, ast.arg):
            stores[n.arg] = stores.get(n.arg, 0) + 1
    local = {d.name: d for d in fn.body if isinstance(d, ast.FunctionDef) and stores.get(d.name) == 1 and not d.decorator_list}
    if not local:
        return resolve_call, {}

    def res(call):
        if isinstance(call, ast.Call) and isinstance(call.func, ast.Name) and call.func.id in local:
            return local[call.func.id]
        return resolve_call(call) if resolve_call is not None else None
    for attr in ("local_types", "classes"):
        if hasattr(resolve_call, attr):
            setattr(res, attr, getattr(resolve_call, attr))
    return res, local


def drop_unused_defs(body: List[ast.stmt], local) -> List[ast.stmt]:
    if not local:
        return body
    used = {n.id for st in body for n in ast.walk(st) if isinstance(n, ast.Name) and isinstance(n.ctx, ast.Load)}
    return [st for st in body if not (isinstance(st, ast.FunctionDef) and st.name in local and st.name not in used)]


def copy_propagate(body: List[ast.stmt]) -> List[ast.stmt]:
    """COPY-PROP: within one statement list, after `x = <name or attribute chain>` the reads of x become that expression until x, or anything
    the expression reads, may change: a store to x / to a name it reads, and -- for attribute chains -- any call or attribute store in between.
    Substitution into a statement happens only where every call of that statement encloses the read (so nothing runs before the read that
    did not run before the copy).  Copies nothing reads any more are dropped.  Nested blocks start from the copies still valid at their head
    minus everything the compound statement may change."""
    mod = ast.Module(body=body, type_ignores=[])
    touched = [False]

    def is_copy_src(e):
        if isinstance(e, ast.Name):
            return True
        return isinstance(e, ast.Attribute) and is_copy_src(e.value)

    def stores_of(node):
        out = set()
        for n in ast.walk(node):
            if isinstance(n, ast.Name) and isinstance(n.ctx, (ast.Store, ast.Del)):
                out.add(n.id)
            elif isinstance(n, (ast.FunctionDef, ast.ClassDef)):
                out.add(n.name)
        return out

    def has_effect(node):
        return any(isinstance(n, (ast.Call, ast.Await, ast.Yield, ast.YieldFrom)) or
                   (isinstance(n, (ast.Attribute, ast.Subscript)) and isinstance(n.ctx, (ast.Store, ast.Del))) for n in ast.walk(node))

    def subst_expr(e, avail):
        """substitute in expression e (returns new expr)"""
        if not avail:
            return e
        parents = {}
        for n in ast.walk(e):
            for ch in ast.iter_child_nodes(n):
                parents[id(ch)] = n
        calls = [n for n in ast.walk(e) if isinstance(n, ast.Call)]

        def enclosed_by_all_calls(n):
            anc = set()
            cur = n
            while id(cur) in parents:
                cur = parents[id(cur)]
                anc.add(id(cur))
            return all(id(c) in anc for c in calls)

        class T(ast.NodeTransformer):
            def visit_Name(self, n):
                if isinstance(n.ctx, ast.Load) and n.id in avail:
                    src = avail[n.id]
                    if isinstance(src, ast.Name) or enclosed_by_all_calls(n):
                        touched[0] = True
                        return ast.copy_location(copy.deepcopy(src), n)
                return n

            def visit_Lambda(self, n):
                return n

            def visit_ListComp(self, n):
                return n
            visit_SetComp = visit_DictComp = visit_GeneratorExp = visit_ListComp
        return T().visit(e)

    def kill(avail, st_stores, effect):
        for k in list(avail):
            src = avail[k]
            reads = {x.id for x in ast.walk(src) if isinstance(x, ast.Name)}
            if k in st_stores or reads & st_stores or (effect and isinstance(src, ast.Attribute)):
                del avail[k]

    def block(stmts, avail):
        avail = dict(avail)
        for st in stmts:
            if isinstance(st, (ast.Assign, ast.AugAssign, ast.AnnAssign, ast.Expr, ast.Return, ast.Assert, ast.Raise)):
                for fld in ("value", "test", "msg", "exc"):
                    v = getattr(st, fld, None)
                    if isinstance(v, ast.expr):
                        setattr(st, fld, subst_expr(v, avail))
                if isinstance(st, ast.Assign):
                    # subscripts / attribute bases on the left are reads too
                    for t in st.targets:
                        if isinstance(t, (ast.Subscript, ast.Attribute)):
                            t.value = subst_expr(t.value, {k: v for k, v in avail.items() if isinstance(v, ast.Name)})
                kill(avail, stores_of(st), has_effect(st))
                if isinstance(st, ast.Assign) and len(st.targets) == 1 and isinstance(st.targets[0], ast.Name) and is_copy_src(st.value) \
                        and not (isinstance(st.value, ast.Name) and st.value.id == st.targets[0].id):
                    avail[st.targets[0].id] = st.value
            elif isinstance(st, (ast.If, ast.While, ast.For, ast.With, ast.Try)):
                inner_stores = stores_of(st)
                eff = has_effect(st)
                if isinstance(st, ast.If):
                    st.test = subst_expr(st.test, avail)
                elif isinstance(st, ast.For):
                    st.iter = subst_expr(st.iter, avail)
                inner = dict(avail)
                if isinstance(st, (ast.While, ast.For)):
                    kill(inner, inner_stores, eff)         # a later iteration sees what an earlier one changed
                for fld in ("body", "orelse", "finalbody"):
                    v = getattr(st, fld, None)
                    if isinstance(v, list) and v and all(isinstance(x, ast.stmt) for x in v):
                        block(v, inner)
                if isinstance(st, ast.Try):
                    for h in st.handlers:
                        block(h.body, {})
                kill(avail, inner_stores, eff)
            else:
                kill(avail, stores_of(st), True)
        return stmts
    block(body, {})
    if not touched[0]:
        return body
    loads = {n.id for n in ast.walk(mod) if isinstance(n, ast.Name) and isinstance(n.ctx, ast.Load)}

    def prune(stmts):
        out = []
        for st in stmts:
            if isinstance(st, ast.Assign) and len(st.targets) == 1 and isinstance(st.targets[0], ast.Name) and st.targets[0].id not in loads \
                    and is_copy_src(st.value):
                continue
            for fld in ("body", "orelse", "finalbody"):
                v = getattr(st, fld, None)
                if isinstance(v, list) and v and all(isinstance(x, ast.stmt) for x in v) and not isinstance(st, (ast.FunctionDef, ast.ClassDef)):
                    setattr(st, fld, prune(v) or [ast.Pass()])
            out.append(st)
        return out
    out = prune(body)
    for st in out:
        ast.fix_missing_locations(st)
    return out


def coalesce_copies(fn_body: List[ast.stmt]) -> List[ast.stmt]:
    """COALESCE: in one statement list, `a = A` ... `A = a` where A is neither read nor written in between and `a` occurs nowhere outside that
    stretch: `a` is A's working copy -- it is renamed to A and the two copies are dropped (the value flow is unchanged on normal termination).
    This is what threading a value through an inlined helper leaves behind."""
    def names_in(nodes, name):
        return [x for n in nodes for x in ast.walk(n) if isinstance(x, ast.Name) and x.id == name]
    whole = ast.Module(body=fn_body, type_ignores=[])

    def work(stmts):
        for s in stmts:
            for fld in ("body", "orelse", "finalbody"):
                v = getattr(s, fld, None)
                if isinstance(v, list) and v and all(isinstance(x, ast.stmt) for x in v):
                    setattr(s, fld, work(v))
        changed = True
        while changed:
            changed = False
            for i, si in enumerate(stmts):
                if not (isinstance(si, ast.Assign) and len(si.targets) == 1 and isinstance(si.targets[0], ast.Name) and isinstance(si.value, ast.Name)
                        and si.targets[0].id != si.value.id):
                    continue
                a, A = si.targets[0].id, si.value.id
                for j in range(i + 1, len(stmts)):
                    sj = stmts[j]
                    if isinstance(sj, ast.Assign) and len(sj.targets) == 1 and isinstance(sj.targets[0], ast.Name) and sj.targets[0].id == A \
                            and isinstance(sj.value, ast.Name) and sj.value.id == a:
                        between = stmts[i + 1:j]
                        if names_in(between, A):
                            break
                        total_a = len(names_in([whole], a))
                        inside_a = len(names_in(stmts[i:j + 1], a))
                        if total_a != inside_a:
                            break
                        for x in names_in(between, a):
                            x.id = A
                        del stmts[j]
                        del stmts[i]
                        changed = True
                        break
                    if isinstance(sj, ast.Assign) and any(isinstance(x, ast.Name) and x.id == A and isinstance(x.ctx, ast.Store) for t in sj.targets for x in ast.walk(t)):
                        break
                if changed:
                    break
        return stmts
    return work(fn_body)


def unproduct(stmts: List[ast.stmt]) -> List[ast.stmt]:
    """`for A, B in product(X, Y): S` -> `for A in X: for B in Y: S` (also `product(X, repeat=2)`); X, Y call-free or enumerate()/range() of call-free
    expressions, so that evaluating Y once per outer iteration changes nothing (recursively)"""
    def ok_factor(e):
        inner = e.args[0] if isinstance(e, ast.Call) and isinstance(e.func, ast.Name) and e.func.id in ("enumerate", "range", "sorted", "list") and e.args else e
        return not any(isinstance(x, ast.Call) and not (isinstance(x.func, ast.Name) and x.func.id == "len") for x in ast.walk(inner))
    out = []
    for s in stmts:
        for fld in ("body", "orelse", "finalbody"):
            v = getattr(s, fld, None)
            if isinstance(v, list) and v and all(isinstance(x, ast.stmt) for x in v):
                setattr(s, fld, unproduct(v))
        if isinstance(s, ast.For) and not s.orelse and isinstance(s.iter, ast.Call) and ast.unparse(s.iter.func).split(".")[-1] == "product" \
                and isinstance(s.target, (ast.Tuple, ast.List)):
            facs = list(s.iter.args)
            rep = next((k.value for k in s.iter.keywords if k.arg == "repeat"), None)
            if rep is not None and isinstance(rep, ast.Constant) and isinstance(rep.value, int) and len(s.iter.keywords) == 1:
                facs = facs * rep.value
            elif s.iter.keywords:
                facs = []
            if facs and len(facs) == len(s.target.elts) and all(ok_factor(f) for f in facs) and not any(isinstance(x, ast.Break) for x in ast.walk(s)):
                body = s.body
                for tgt, fac in reversed(list(zip(s.target.elts, facs))):
                    tgt = copy.deepcopy(tgt)
                    for x in ast.walk(tgt):
                        if isinstance(x, (ast.Name, ast.Tuple, ast.List)):
                            x.ctx = ast.Store()
                    loop = ast.For(target=tgt, iter=copy.deepcopy(fac), body=body, orelse=[], lineno=s.lineno)
                    body = [loop]
                out.append(ast.fix_missing_locations(body[0]))
                continue
        out.append(s)
    return out


LOG_LEVELS = ("debug", "info", "warning", "warn", "error", "exception", "critical", "log")


def strip_logging(stmts: List[ast.stmt]) -> List[ast.stmt]:
    """QUIET: statements that only emit a log record (`logger.debug(..)`, `logging.info(..)`, any `<name>.<level>(..)` on a name that ends in
    `logger` / `log` / `logging`) with effect-free arguments say nothing about what the function computes: dropped before the structural rules"""
    out = []
    for st in stmts:
        if isinstance(st, ast.Expr) and isinstance(st.value, ast.Call) and isinstance(st.value.func, ast.Attribute) and st.value.func.attr in LOG_LEVELS \
                and isinstance(st.value.func.value, ast.Name) and st.value.func.value.id.lower().lstrip("_").endswith(("logger", "log", "logging")) \
                and not any(isinstance(x, (ast.Call, ast.Await, ast.Yield, ast.NamedExpr)) for a_ in list(st.value.args) + [k.value for k in st.value.keywords] for x in ast.walk(a_)):
            continue
        for fld in ("body", "orelse", "finalbody"):
            v = getattr(st, fld, None)
            if isinstance(v, list) and v and all(isinstance(x, ast.stmt) for x in v) and not isinstance(st, (ast.FunctionDef, ast.ClassDef)):
                setattr(st, fld, strip_logging(v) or [ast.Pass()])
        out.append(st)
    return out


def table_fuse(body: List[ast.stmt]) -> List[ast.stmt]:
    """TABLE-FUSE: a list built by one top-level loop, `L = []; [c = c0;] for a in K: <pure locals>; L.append(E); [c += d]`, and read by exactly one
    later loop `for [i,] r in [enumerate](L): S` (possibly nested in other loops): the reading loop becomes
    `[c = c0;] for [i,] a in [enumerate](K): <pure locals>; r = E; [c += d]; S`, the building loop goes.  The k-th record is built from the k-th
    key by effect-free statements (len(), arithmetic, namedtuple / tuple construction), so building it where it is used gives the same record --
    provided the containers those statements read are not resized by S (assumption shared with UNZIP-MAP, DESIGN 8.12)."""
    mod = ast.Module(body=body, type_ignores=[])

    def pure_expr(e):
        for x in ast.walk(e):
            if isinstance(x, ast.Call):
                f = ast.unparse(x.func)
                if not (f in ("len", "sorted", "list", "tuple", "int", "float", "abs", "min", "max", "str") or (f[:1].isupper() and f.isidentifier())):
                    return False
            if isinstance(x, (ast.Lambda, ast.Await, ast.Yield, ast.YieldFrom, ast.NamedExpr)):
                return False
        return True
    for ia, A in enumerate(body):
        if not (isinstance(A, ast.For) and not A.orelse and isinstance(A.target, ast.Name) and pure_expr(A.iter)):
            continue
        apps = [st for st in A.body if isinstance(st, ast.Expr) and isinstance(st.value, ast.Call) and isinstance(st.value.func, ast.Attribute)
                and st.value.func.attr == "append" and isinstance(st.value.func.value, ast.Name) and len(st.value.args) == 1]
        if len(apps) != 1:
            continue
        L = apps[0].value.func.value.id
        ok = True
        assigned = set()
        for st in A.body:
            if st is apps[0]:
                ok = ok and pure_expr(st.value.args[0])
            elif isinstance(st, ast.Assign) and len(st.targets) == 1 and isinstance(st.targets[0], ast.Name) and pure_expr(st.value):
                assigned.add(st.targets[0].id)
            elif isinstance(st, ast.AugAssign) and isinstance(st.target, ast.Name) and pure_expr(st.value):
                assigned.add(st.target.id)
            else:
                ok = False
        if not ok:
            continue
        # loop-carried locals: read in A's body before (or in the statement where) they are assigned
        carried = set()
        seen = set()
        for st in A.body:
            reads = {x.id for x in ast.walk(st.value if isinstance(st, (ast.Assign, ast.AugAssign)) else st) if isinstance(x, ast.Name) and isinstance(x.ctx, ast.Load)}
            if isinstance(st, ast.AugAssign):
                reads.add(st.target.id)
            carried |= {r for r in reads if r in assigned and r not in seen}
            if isinstance(st, ast.Assign):
                seen.add(st.targets[0].id)
        # initialisers: `L = []` and `c = <const>` among the statements just before A (top level)
        inits = {}
        j = ia - 1
        while j >= 0 and isinstance(body[j], ast.Assign) and len(body[j].targets) == 1 and isinstance(body[j].targets[0], ast.Name) \
                and body[j].targets[0].id in ({L} | carried):
            inits[body[j].targets[0].id] = body[j]
            j -= 1
        if L not in inits or not (isinstance(inits[L].value, ast.List) and not inits[L].value.elts) or not carried <= set(inits):
            continue
        if not all(isinstance(inits[c].value, ast.Constant) for c in carried):
            continue
        own = {id(x) for st in [A] + list(inits.values()) for x in ast.walk(st)}
        names_A = assigned | {A.target.id, L}
        # every other mention of L / A's locals
        others = [x for x in ast.walk(mod) if isinstance(x, ast.Name) and x.id in names_A and id(x) not in own]
        readers = []
        for B in ast.walk(mod):
            if isinstance(B, ast.For) and B is not A:
                it = B.iter
                en = isinstance(it, ast.Call) and isinstance(it.func, ast.Name) and it.func.id == "enumerate" and len(it.args) == 1 and not it.keywords
                src = it.args[0] if en else it
                if isinstance(src, ast.Name) and src.id == L:
                    readers.append((B, en))
        if len(readers) != 1:
            continue
        B, en = readers[0]
        if B.orelse or (en and not (isinstance(B.target, (ast.Tuple, ast.List)) and len(B.target.elts) == 2)):
            continue
        rec_t = B.target.elts[1] if en else B.target
        in_B = {id(x) for x in ast.walk(B)}
        # outside B nothing else may mention L or A's locals; inside B's body only re-bindings of names A does not carry are tolerated
        if any(id(x) not in in_B for x in others):
            continue
        b_stores = {x.id for st in B.body for x in ast.walk(st) if isinstance(x, ast.Name) and isinstance(x.ctx, ast.Store)}
        b_reads = {x.id for st in B.body for x in ast.walk(st) if isinstance(x, ast.Name) and isinstance(x.ctx, ast.Load)}
        if b_stores & (carried | {x.id for x in ast.walk(A.iter) if isinstance(x, ast.Name)}) or (b_reads & (names_A - {L})) - b_stores - {A.target.id}:
            # B reads one of A's locals directly (not through the record): their values after loop A are the last key's, not the k-th
            if (b_reads & (names_A - {L})) - b_stores:
                continue
        if any(isinstance(x, (ast.Break,)) for st in B.body for x in ast.walk(st)):
            continue
        new_body = []
        for st in A.body:
            if st is apps[0]:
                new_body.append(ast.copy_location(ast.Assign([copy.deepcopy(rec_t)], st.value.args[0]), st))
            else:
                new_body.append(copy.deepcopy(st))
        for t in ast.walk(new_body[0]) if False else ():
            pass
        for st in new_body:
            for x in ast.walk(st):
                if isinstance(x, ast.Name) and x is not None and hasattr(x, "ctx") and any(x is y for y in ast.walk(rec_t)):
                    x.ctx = ast.Store()
        tgt = ast.Tuple([B.target.elts[0], copy.deepcopy(A.target)], ast.Store()) if en else copy.deepcopy(A.target)
        itx = ast.Call(ast.Name("enumerate", ast.Load()), [copy.deepcopy(A.iter)], []) if en else copy.deepcopy(A.iter)
        fused = ast.copy_location(ast.For(tgt, itx, new_body + B.body, []), B)
        pre = [copy.deepcopy(inits[c]) for c in sorted(carried)]

        def place(stmts):
            out = []
            for st in stmts:
                if st is B:
                    out.extend(pre)
                    out.append(fused)
                    continue
                if st is A or any(st is v for v in inits.values()):
                    continue
                for fld in ("body", "orelse", "finalbody"):
                    v = getattr(st, fld, None)
                    if isinstance(v, list) and v and all(isinstance(x, ast.stmt) for x in v) and not isinstance(st, (ast.FunctionDef, ast.ClassDef)):
                        setattr(st, fld, place(v))
                out.append(st)
            return out
        res = place(body)
        for st in res:
            ast.fix_missing_locations(st)
        return table_fuse(res)
    return body


def unprecompute_dicts(fn: ast.FunctionDef) -> int:
    """PRECOMP-DICT (in place): `D = {k: F(k) for k in K}` (bound once, K a name bound once, no filter), read only as `D[x]` with x the target of a
    loop `for x in K` / `for i, x in enumerate(K)` over the same K: `D[x]` is F(x) (x is one of the keys the table was built from; F call-free
    except len(), so evaluating it again is the same value).  Returns the number of tables removed."""
    nst: Dict[str, int] = {}
    comp_targets = {id(x) for c in ast.walk(fn) if isinstance(c, ast.comprehension) for x in ast.walk(c.target)}      # scoped to their comprehension
    for n in ast.walk(fn):
        if isinstance(n, ast.Name) and isinstance(n.ctx, ast.Store) and id(n) not in comp_targets:
            nst[n.id] = nst.get(n.id, 0) + 1
    parents = {}
    for n in ast.walk(fn):
        for ch in ast.iter_child_nodes(n):
            parents[id(ch)] = n
    done = 0
    for a in [x for x in ast.walk(fn) if isinstance(x, ast.Assign)]:
        if not (len(a.targets) == 1 and isinstance(a.targets[0], ast.Name) and nst.get(a.targets[0].id) == 1 and isinstance(a.value, ast.DictComp)):
            continue
        D, v = a.targets[0].id, a.value
        if not (len(v.generators) == 1 and not v.generators[0].ifs and isinstance(v.generators[0].target, ast.Name) and isinstance(v.generators[0].iter, ast.Name)
                and isinstance(v.key, ast.Name) and v.key.id == v.generators[0].target.id):
            continue
        kvar, K = v.key.id, v.generators[0].iter.id
        if nst.get(K, 0) > 1:
            continue
        if any(isinstance(x, (ast.Lambda, ast.Await, ast.Yield, ast.NamedExpr)) or (isinstance(x, ast.Call) and not (isinstance(x.func, ast.Name) and x.func.id == "len"))
               for x in ast.walk(v.value)):
            continue
        # loop variables that range over K
        over_k = set()
        for lp in ast.walk(fn):
            if isinstance(lp, (ast.For, ast.comprehension)):
                it, tg = lp.iter, lp.target
                if isinstance(lp, ast.comprehension):
                    continue
                if isinstance(it, ast.Name) and it.id == K and isinstance(tg, ast.Name):
                    over_k.add(tg.id)
                elif isinstance(it, ast.Call) and isinstance(it.func, ast.Name) and it.func.id == "enumerate" and len(it.args) == 1 and isinstance(it.args[0], ast.Name) \
                        and it.args[0].id == K and isinstance(tg, (ast.Tuple, ast.List)) and len(tg.elts) == 2 and isinstance(tg.elts[1], ast.Name):
                    over_k.add(tg.elts[1].id)
        over_k = {x for x in over_k if nst.get(x, 0) == 1}
        uses = [n for n in ast.walk(fn) if isinstance(n, ast.Name) and n.id == D and isinstance(n.ctx, ast.Load)]
        subs = []
        for u in uses:
            par = parents.get(id(u))
            if isinstance(par, ast.Subscript) and par.value is u and isinstance(par.ctx, ast.Load) and isinstance(par.slice, ast.Name) and par.slice.id in over_k:
                subs.append(par)
            else:
                subs = None
                break
        if not subs:
            continue
        for sub in subs:
            x = sub.slice.id

            class S(ast.NodeTransformer):
                def visit_Name(self, n):
                    return ast.copy_location(ast.Name(x, n.ctx), n) if n.id == kvar else n
            new = S().visit(copy.deepcopy(v.value))
            par = parents[id(sub)]
            for fld, val in ast.iter_fields(par):
                if val is sub:
                    setattr(par, fld, new)
                elif isinstance(val, list):
                    for i_, e in enumerate(val):
                        if e is sub:
                            val[i_] = new
        # remove the table
        par = parents.get(id(a))
        for fld in ("body", "orelse", "finalbody"):
            lst = getattr(par, fld, None)
            if isinstance(lst, list) and a in lst:
                lst.remove(a)
                if not lst:
                    lst.append(ast.Pass())
        done += 1
    if done:
        ast.fix_missing_locations(fn)
    return done


def unprecompute_lists(fn: ast.FunctionDef) -> int:
    """PRECOMP-LIST (in place): `L = [F(i) for i in range(len(X) + c)]` (c = 0 or 1, bound once) whose only uses are `zip(P, L)` with P of the
    same length as X (P is X, or X is a comprehension over P without filter) and `L[-1]`:  `for T, l in zip(P, L)` becomes
    `for i, T in enumerate(P)` with l replaced by F(i);  `L[-1]` becomes F(len(X) + c - 1), and `X[:len(X)]` is X.  Returns the number of lists
    removed."""
    nst: Dict[str, int] = {}
    defs: Dict[str, ast.Assign] = {}
    for n in ast.walk(fn):
        if isinstance(n, ast.Name) and isinstance(n.ctx, ast.Store):
            nst[n.id] = nst.get(n.id, 0) + 1
        if isinstance(n, ast.Assign) and len(n.targets) == 1 and isinstance(n.targets[0], ast.Name):
            defs[n.targets[0].id] = n
    done = 0
    for L, a in list(defs.items()):
        v = a.value
        if nst.get(L) != 1 or not (isinstance(v, ast.ListComp) and len(v.generators) == 1 and not v.generators[0].ifs
                                   and isinstance(v.generators[0].target, ast.Name)):
            continue
        g = v.generators[0]
        it = g.iter
        if not (isinstance(it, ast.Call) and isinstance(it.func, ast.Name) and it.func.id == "range" and len(it.args) == 1):
            continue
        N = it.args[0]
        c = 0
        if isinstance(N, ast.BinOp) and isinstance(N.op, ast.Add) and isinstance(N.right, ast.Constant) and N.right.value == 1:
            N, c = N.left, 1
        if not (isinstance(N, ast.Call) and isinstance(N.func, ast.Name) and N.func.id == "len" and len(N.args) == 1 and isinstance(N.args[0], ast.Name)):
            continue
        X = N.args[0].id
        ivar = g.target.id
        same_len = {X}
        xd = defs.get(X)
        if xd is not None and nst.get(X) == 1 and isinstance(xd.value, ast.ListComp) and len(xd.value.generators) == 1 and not xd.value.generators[0].ifs \
                and isinstance(xd.value.generators[0].iter, ast.Name):
            same_len.add(xd.value.generators[0].iter.id)
        uses = [n for n in ast.walk(fn) if isinstance(n, ast.Name) and n.id == L and isinstance(n.ctx, ast.Load)]
        parents = {}
        for n in ast.walk(fn):
            for ch in ast.iter_child_nodes(n):
                parents[id(ch)] = n
        plan = []
        ok = True
        for u in uses:
            par = parents.get(id(u))
            if isinstance(par, ast.Subscript) and par.value is u and isinstance(par.slice, ast.UnaryOp) and isinstance(par.slice.op, ast.USub) \
                    and isinstance(par.slice.operand, ast.Constant) and par.slice.operand.value == 1 and c == 1:
                plan.append(("last", par))
            elif isinstance(par, ast.Call) and isinstance(par.func, ast.Name) and par.func.id == "zip" and len(par.args) == 2 and par.args[1] is u \
                    and isinstance(par.args[0], ast.Name) and par.args[0].id in same_len and isinstance(parents.get(id(par)), (ast.comprehension, ast.For)) \
                    and parents[id(par)].iter is par and isinstance(parents[id(par)].target, (ast.Tuple, ast.List)) and len(parents[id(par)].target.elts) == 2 \
                    and isinstance(parents[id(par)].target.elts[1], ast.Name):
                plan.append(("zip", par))
            else:
                ok = False
        if not ok or not plan:
            continue

        def F(i_expr):
            class S(ast.NodeTransformer):
                def visit_Name(self, n):
                    return copy.deepcopy(i_expr) if n.id == ivar and isinstance(n.ctx, ast.Load) else n
            e = S().visit(copy.deepcopy(v.elt))

            class Z(ast.NodeTransformer):
                def visit_Subscript(self, sub):
                    self.generic_visit(sub)
                    sl = sub.slice
                    if isinstance(sl, ast.Slice) and sl.lower is None and sl.step is None and isinstance(sl.upper, ast.Call) and isinstance(sl.upper.func, ast.Name) \
                            and sl.upper.func.id == "len" and len(sl.upper.args) == 1 and ast.dump(sl.upper.args[0]) == ast.dump(sub.value):
                        return sub.value              # X[:len(X)] is X
                    return sub
            return Z().visit(e)
        k = 0
        for kind, node in plan:
            if kind == "last":
                new = F(copy.deepcopy(N))             # index len(X) + 1 - 1
                par = parents[id(node)]
                for fld, val in ast.iter_fields(par):
                    if val is node:
                        setattr(par, fld, new)
                    elif isinstance(val, list) and any(x is node for x in val):
                        setattr(par, fld, [new if x is node else x for x in val])
            else:
                holder = parents[id(node)]            # comprehension or For
                k += 1
                idx = f"pos__{L}_{k}"
                lname = holder.target.elts[1].id
                first = holder.target.elts[0]
                holder.target = ast.Tuple([ast.Name(idx, ast.Store()), first], ast.Store())
                holder.iter = ast.Call(ast.Name("enumerate", ast.Load()), [node.args[0]], [])
                scope = parents[id(holder)] if isinstance(holder, ast.comprehension) else holder
                repl = F(ast.Name(idx, ast.Load()))

                class U(ast.NodeTransformer):
                    def visit_Name(self, n):
                        return copy.deepcopy(repl) if n.id == lname and isinstance(n.ctx, ast.Load) else n
                if isinstance(holder, ast.comprehension):
                    for fld in ("elt", "key", "value"):
                        if hasattr(scope, fld):
                            setattr(scope, fld, U().visit(getattr(scope, fld)))
                else:
                    holder.body = [U().visit(b) for b in holder.body]

        def prune(stmts):
            out = []
            for st in stmts:
                if st is a:
                    continue
                for fld in ("body", "orelse", "finalbody"):
                    vv = getattr(st, fld, None)
                    if isinstance(vv, list) and vv and all(isinstance(x, ast.stmt) for x in vv) and not isinstance(st, (ast.FunctionDef, ast.ClassDef)):
                        setattr(st, fld, prune(vv) or [ast.Pass()])
                out.append(st)
            return out
        fn.body = prune(fn.body)
        done += 1
    if done:
        ast.fix_missing_locations(fn)
    return done


def prefix_zip(body: List[ast.stmt]) -> List[ast.stmt]:
    """PREFIX-ZIP: `for [i,] (k, n, a, b) in [enumerate](zip(K, S, STARTS, STOPS))` where S = [F(x) for x in K] and STARTS / STOPS are the running
    sums of S before / after each element (itertools.accumulate, np.cumsum, `[0] + stops[:-1]`, `offs[:-1]` / `offs[1:]`) is the loop that keeps
    the running sum itself:  `o = 0; for [i,] k in [enumerate](K): n = F(k); a = o; b = o + n; o += n; S`.  (Definition of a prefix sum; same
    container-stability assumption as UNZIP-MAP.)  Every list involved is a local bound once; the zip may be held in a local (`list(zip(..))`)."""
    mod = ast.Module(body=body, type_ignores=[])
    nst: Dict[str, int] = {}
    defs: Dict[str, ast.expr] = {}
    for n in ast.walk(mod):
        if isinstance(n, ast.Name) and isinstance(n.ctx, ast.Store):
            nst[n.id] = nst.get(n.id, 0) + 1
        if isinstance(n, ast.Assign) and len(n.targets) == 1 and isinstance(n.targets[0], ast.Name):
            defs[n.targets[0].id] = n.value

    def R(e, depth=0):
        while isinstance(e, ast.Name) and nst.get(e.id) == 1 and e.id in defs and depth < 6:
            e = defs[e.id]
            depth += 1
        return e

    def unlist(e):
        e = R(e)
        if isinstance(e, ast.Call) and isinstance(e.func, ast.Name) and e.func.id in ("list", "tuple") and len(e.args) == 1 and not e.keywords:
            return R(e.args[0])
        if isinstance(e, ast.Call) and isinstance(e.func, ast.Attribute) and e.func.attr == "tolist" and not e.args:
            return R(e.func.value)
        return e

    def same(a, b):
        return ast.dump(R(a)) == ast.dump(R(b))

    def cumsum_of(e):
        """S when e is the running sums of S (length len(S)); ('lead0', S) when it is [0] + running sums (length len(S) + 1)"""
        e = unlist(e)
        if isinstance(e, ast.Call) and ast.unparse(e.func) in ("accumulate", "itertools.accumulate", "np.cumsum", "numpy.cumsum") and len(e.args) == 1 and not e.keywords:
            a = R(e.args[0])
            if isinstance(a, ast.BinOp) and isinstance(a.op, ast.Add) and isinstance(R(a.left), ast.List) and len(R(a.left).elts) == 1 \
                    and isinstance(R(a.left).elts[0], ast.Constant) and R(a.left).elts[0].value == 0:
                return ("lead0", a.right)
            return ("plain", a)
        if isinstance(e, ast.BinOp) and isinstance(e.op, ast.Add) and isinstance(R(e.left), ast.List) and len(R(e.left).elts) == 1 \
                and isinstance(R(e.left).elts[0], ast.Constant) and R(e.left).elts[0].value == 0:
            inner = cumsum_of(e.right)
            if inner and inner[0] == "plain":
                return ("lead0", inner[1])
        return None

    def role(e, S):
        """'stops' / 'starts' relative to the size list S, or None"""
        e0 = R(e)
        c = cumsum_of(e0)
        if c and c[0] == "plain" and same(c[1], S):
            return "stops"
        if isinstance(e0, ast.Subscript) and isinstance(e0.slice, ast.Slice) and e0.slice.step is None:
            base = cumsum_of(e0.value)
            lo, hi = e0.slice.lower, e0.slice.upper
            is_m1 = isinstance(hi, ast.UnaryOp) and isinstance(hi.op, ast.USub) and isinstance(hi.operand, ast.Constant) and hi.operand.value == 1
            if base and base[0] == "lead0" and same(base[1], S):
                if lo is None and is_m1:
                    return "starts"
                if isinstance(lo, ast.Constant) and lo.value == 1 and hi is None:
                    return "stops"
        if isinstance(e0, ast.BinOp) and isinstance(e0.op, ast.Add) and isinstance(R(e0.left), ast.List) and len(R(e0.left).elts) == 1 \
                and isinstance(R(e0.left).elts[0], ast.Constant) and R(e0.left).elts[0].value == 0:
            r = R(e0.right)
            if isinstance(r, ast.Subscript) and isinstance(r.slice, ast.Slice) and r.slice.lower is None and r.slice.step is None \
                    and isinstance(r.slice.upper, ast.UnaryOp) and isinstance(r.slice.upper.op, ast.USub) and isinstance(r.slice.upper.operand, ast.Constant) \
                    and r.slice.upper.operand.value == 1:
                c2 = cumsum_of(r.value)
                if c2 and c2[0] == "plain" and same(c2[1], S):
                    return "starts"
        return None
    names = {n.id for n in ast.walk(mod) if isinstance(n, ast.Name)}
    changed = [False]

    def conv(stmts):
        out = []
        for st in stmts:
            for fld in ("body", "orelse", "finalbody"):
                v = getattr(st, fld, None)
                if isinstance(v, list) and v and all(isinstance(x, ast.stmt) for x in v) and not isinstance(st, (ast.FunctionDef, ast.ClassDef)):
                    setattr(st, fld, conv(v))
            if isinstance(st, ast.For) and not st.orelse:
                it, tgt, enum = st.iter, st.target, False
                if isinstance(it, ast.Call) and isinstance(it.func, ast.Name) and it.func.id == "enumerate" and len(it.args) == 1 and not it.keywords \
                        and isinstance(tgt, (ast.Tuple, ast.List)) and len(tgt.elts) == 2:
                    it, tgt, enum = it.args[0], tgt.elts[1], True
                z = unlist(it)
                if isinstance(z, ast.Call) and isinstance(z.func, ast.Name) and z.func.id == "zip" and not z.keywords and len(z.args) in (3, 4) \
                        and isinstance(tgt, (ast.Tuple, ast.List)) and len(tgt.elts) == len(z.args) and all(isinstance(e, ast.Name) for e in tgt.elts):
                    args = list(z.args)
                    K = args[0]
                    # the size list: a map of K
                    sidx = None
                    for i, a in enumerate(args[1:], 1):
                        m_ = R(a)
                        if isinstance(m_, ast.ListComp) and len(m_.generators) == 1 and not m_.generators[0].ifs and isinstance(m_.generators[0].target, ast.Name) \
                                and same(m_.generators[0].iter, K):
                            sidx = i
                            break
                    if sidx is not None:
                        S = args[sidx]
                        roles = {i: role(a, S) for i, a in enumerate(args) if i not in (0, sidx)}
                        if all(r in ("starts", "stops") for r in roles.values()) and not any(isinstance(x, ast.Call) and not (
                                isinstance(x.func, ast.Name) and x.func.id in ("sorted", "list")) for x in ast.walk(R(K))):
                            m_ = R(S)
                            x = m_.generators[0].target.id
                            kvar, nvar = tgt.elts[0].id, tgt.elts[sidx].id
                            off = "offset__"
                            i_ = 0
                            while off + str(i_) in names:
                                i_ += 1
                            off = off + str(i_)
                            names.add(off)

                            class Sb(ast.NodeTransformer):
                                def visit_Name(self, n):
                                    return ast.copy_location(ast.Name(kvar, ast.Load()), n) if n.id == x and isinstance(n.ctx, ast.Load) else n
                            pre = [ast.Assign([ast.Name(nvar, ast.Store())], Sb().visit(copy.deepcopy(m_.elt)))]
                            for i, r in roles.items():
                                v = ast.Name(off, ast.Load()) if r == "starts" else ast.BinOp(ast.Name(off, ast.Load()), ast.Add(), ast.Name(nvar, ast.Load()))
                                pre.append(ast.Assign([ast.Name(tgt.elts[i].id, ast.Store())], v))
                            pre.append(ast.AugAssign(ast.Name(off, ast.Store()), ast.Add(), ast.Name(nvar, ast.Load())))
                            new_t = ast.Tuple([st.target.elts[0], ast.Name(kvar, ast.Store())], ast.Store()) if enum else ast.Name(kvar, ast.Store())
                            new_it = ast.Call(ast.Name("enumerate", ast.Load()), [copy.deepcopy(R(K))], []) if enum else copy.deepcopy(R(K))
                            loop = ast.copy_location(ast.For(new_t, new_it, [ast.copy_location(p_, st) for p_ in pre] + st.body, []), st)
                            init = ast.copy_location(ast.Assign([ast.Name(off, ast.Store())], ast.Constant(0)), st)
                            ast.fix_missing_locations(loop)
                            ast.fix_missing_locations(init)
                            out.extend([init, loop])
                            changed[0] = True
                            continue
            out.append(st)
        return out
    if not any(isinstance(n, ast.Call) and isinstance(n.func, ast.Name) and n.func.id == "zip" for n in ast.walk(mod)):
        return body
    new = conv(body)
    if not changed[0]:
        return body
    # the helper lists nobody reads any more
    loads = {n.id for st in new for n in ast.walk(st) if isinstance(n, ast.Name) and isinstance(n.ctx, ast.Load)}
    dead = True
    while dead:
        dead = False
        keep = []
        for st in new:
            if isinstance(st, ast.Assign) and len(st.targets) == 1 and isinstance(st.targets[0], ast.Name) and st.targets[0].id not in loads \
                    and nst.get(st.targets[0].id) == 1 and not any(isinstance(x, ast.Call) and not (
                        isinstance(x.func, ast.Name) and x.func.id in ("list", "tuple", "zip", "len", "sorted", "accumulate") or ast.unparse(x.func) in (
                            "np.cumsum", "itertools.accumulate") or (isinstance(x.func, ast.Attribute) and x.func.attr == "tolist")) for x in ast.walk(st.value)):
                dead = True
                continue
            keep.append(st)
        new = keep
        loads = {n.id for st in new for n in ast.walk(st) if isinstance(n, ast.Name) and isinstance(n.ctx, ast.Load)}
    return new


def unzip_map(body: List[ast.stmt]) -> List[ast.stmt]:
    """UNZIP-MAP: `L = [F(x) for x in K]` (bound once) ... `for (k, l) in zip(K, L): S`  ->  `for k in K: l = F(k); S` (also under enumerate()).
    F is call-free apart from len(), so it reads the same containers whether it is evaluated before the loop or inside it -- provided the loop
    does not resize them, which none of the anchored loops does (assumption recorded in DESIGN 8.12)."""
    mod = ast.Module(body=body, type_ignores=[])
    nstores: Dict[str, int] = {}
    defs: Dict[str, ast.Assign] = {}
    loads: Dict[str, int] = {}
    for n in ast.walk(mod):
        if isinstance(n, ast.Name):
            if isinstance(n.ctx, ast.Load):
                loads[n.id] = loads.get(n.id, 0) + 1
            else:
                nstores[n.id] = nstores.get(n.id, 0) + 1
        elif isinstance(n, ast.arg):
            nstores[n.arg] = nstores.get(n.arg, 0) + 1
        if isinstance(n, ast.Assign) and len(n.targets) == 1 and isinstance(n.targets[0], ast.Name):
            defs[n.targets[0].id] = n

    def as_map(e):
        if not (isinstance(e, ast.Name) and nstores.get(e.id) == 1 and e.id in defs):
            return None
        v = defs[e.id].value
        if isinstance(v, ast.ListComp) and len(v.generators) == 1 and not v.generators[0].ifs and isinstance(v.generators[0].target, ast.Name) \
                and not any(isinstance(x, ast.Call) and not (isinstance(x.func, ast.Name) and x.func.id == "len") for x in ast.walk(v.elt)):
            return v
        return None
    dropped = set()

    def conv(stmts):
        out = []
        for st in stmts:
            for fld in ("body", "orelse", "finalbody"):
                v = getattr(st, fld, None)
                if isinstance(v, list) and v and all(isinstance(x, ast.stmt) for x in v) and not isinstance(st, (ast.FunctionDef, ast.ClassDef)):
                    setattr(st, fld, conv(v))
            if isinstance(st, ast.For) and not st.orelse:
                it, tgt, enum = st.iter, st.target, False
                if isinstance(it, ast.Call) and isinstance(it.func, ast.Name) and it.func.id == "enumerate" and len(it.args) == 1 and not it.keywords \
                        and isinstance(tgt, (ast.Tuple, ast.List)) and len(tgt.elts) == 2:
                    it, tgt, enum = it.args[0], tgt.elts[1], True
                if isinstance(it, ast.Call) and isinstance(it.func, ast.Name) and it.func.id == "zip" and not it.keywords and len(it.args) >= 2 \
                        and isinstance(tgt, (ast.Tuple, ast.List)) and len(tgt.elts) == len(it.args) and all(isinstance(e, ast.Name) for e in tgt.elts):
                    maps = [as_map(a) for a in it.args]
                    base = [i for i, m_ in enumerate(maps) if m_ is None]
                    if len(base) == 1:
                        K = it.args[base[0]]
                        ktxt = ast.unparse(K)
                        if not any(isinstance(x, ast.Call) for x in ast.walk(K)) and all(m_ is None or ast.unparse(m_.generators[0].iter) == ktxt for m_ in maps):
                            kvar = tgt.elts[base[0]].id
                            pre = []
                            for i, m_ in enumerate(maps):
                                if m_ is None:
                                    continue
                                x = m_.generators[0].target.id

                                class S(ast.NodeTransformer):
                                    def visit_Name(self, n):
                                        return ast.copy_location(ast.Name(kvar, ast.Load()), n) if n.id == x and isinstance(n.ctx, ast.Load) else n
                                pre.append(ast.copy_location(ast.Assign([ast.Name(tgt.elts[i].id, ast.Store())], S().visit(copy.deepcopy(m_.elt))), st))
                                if loads.get(it.args[i].id, 0) == 1:
                                    dropped.add(it.args[i].id)
                            new_t = ast.Name(kvar, ast.Store())
                            if enum:
                                st.target = ast.Tuple([st.target.elts[0], new_t], ast.Store())
                                st.iter = ast.Call(ast.Name("enumerate", ast.Load()), [K], [])
                            else:
                                st.target, st.iter = new_t, K
                            st.body = pre + st.body
                            ast.fix_missing_locations(st)
            out.append(st)
        return out
    if not any(isinstance(n, ast.Call) and isinstance(n.func, ast.Name) and n.func.id == "zip" for n in ast.walk(mod)):
        return body
    new = conv(body)

    def prune(stmts):
        out = []
        for st in stmts:
            if isinstance(st, ast.Assign) and len(st.targets) == 1 and isinstance(st.targets[0], ast.Name) and st.targets[0].id in dropped and st is defs.get(st.targets[0].id):
                continue
            for fld in ("body", "orelse", "finalbody"):
                v = getattr(st, fld, None)
                if isinstance(v, list) and v and all(isinstance(x, ast.stmt) for x in v) and not isinstance(st, (ast.FunctionDef, ast.ClassDef)):
                    setattr(st, fld, prune(v) or [ast.Pass()])
            out.append(st)
        return out
    return prune(new)


def splice_local_generators(fn) -> int:
    """CHAIN-LIST + LOCAL-GEN + GENEXP-LOOP (in place, load time):
      `T = list(chain(A, B, ..))` / `return list(chain(..))`   ->  `c = list(A); c.extend(B); ..; T = c`
      `X.extend(G())`, `yield from G()`, `for t in G(): S` with G a parameterless generator defined in this function and used exactly once
                                                               ->  G's body spliced in (a generator body runs when it is consumed, so this is where it ran)
      `for e in (E for t in IT): S`                            ->  `for t in IT: e = E; S`
    Returns the number of rewrites."""
    n_rw = [0]
    names = {n.id for n in ast.walk(fn) if isinstance(n, ast.Name)} | {a.arg for a in ast.walk(fn) if isinstance(a, ast.arg)}

    def fresh(base):
        i = 1
        while f"{base}__{i}" in names:
            i += 1
        names.add(f"{base}__{i}")
        return f"{base}__{i}"

    def is_chain(e):
        return isinstance(e, ast.Call) and isinstance(e.func, ast.Name) and e.func.id == "list" and len(e.args) == 1 and not e.keywords \
            and isinstance(e.args[0], ast.Call) and ast.unparse(e.args[0].func) in ("chain", "itertools.chain") and not e.args[0].keywords \
            and len(e.args[0].args) >= 1 and not any(isinstance(a_, ast.Starred) for a_ in e.args[0].args)

    def each_block(stmts, f):
        out = f(stmts)
        for st in out:
            for fld in ("body", "orelse", "finalbody"):
                v = getattr(st, fld, None)
                if isinstance(v, list) and v and all(isinstance(x, ast.stmt) for x in v) and not isinstance(st, (ast.FunctionDef, ast.ClassDef)):
                    setattr(st, fld, each_block(v, f))
        return out

    def chain_list(stmts):
        out = []
        for st in stmts:
            v = getattr(st, "value", None) if isinstance(st, (ast.Assign, ast.Return)) else None
            if v is not None and is_chain(v):
                c = fresh("chained")
                parts = v.args[0].args
                out.append(ast.copy_location(ast.Assign([ast.Name(c, ast.Store())], ast.Call(ast.Name("list", ast.Load()), [parts[0]], [])), st))
                for p_ in parts[1:]:
                    out.append(ast.copy_location(ast.Expr(ast.Call(ast.Attribute(ast.Name(c, ast.Load()), "extend", ast.Load()), [p_], [])), st))
                out.append(ast.copy_location(ast.Assign(st.targets, ast.Name(c, ast.Load())) if isinstance(st, ast.Assign) else ast.Return(ast.Name(c, ast.Load())), st))
                n_rw[0] += 1
                continue
            out.append(st)
        return out
    if any(isinstance(n, ast.Call) and ast.unparse(n.func) in ("chain", "itertools.chain") for n in ast.walk(fn)):
        fn.body = each_block(fn.body, chain_list)

    def genexp_loop(stmts):
        out = []
        for st in stmts:
            if isinstance(st, ast.For) and not st.orelse and isinstance(st.iter, ast.GeneratorExp) and len(st.iter.generators) == 1 \
                    and not st.iter.generators[0].is_async and isinstance(st.target, ast.Name):
                g = st.iter.generators[0]
                inner = [ast.Assign([st.target], st.iter.elt)] + st.body
                for c_ in reversed(g.ifs):
                    inner = [ast.If(c_, inner, [])]
                tnames = {x.id for x in ast.walk(g.target) if isinstance(x, ast.Name)}
                if not (tnames & (names - tnames)) or True:
                    st = ast.copy_location(ast.For(g.target, g.iter, inner, []), st)
                    n_rw[0] += 1
            out.append(st)
        return out
    if any(isinstance(n, ast.For) and isinstance(n.iter, ast.GeneratorExp) for n in ast.walk(fn)):
        fn.body = each_block(fn.body, genexp_loop)

    # parameterless local generators used exactly once
    stores: Dict[str, int] = {}
    for n in ast.walk(fn):
        if isinstance(n, ast.Name) and isinstance(n.ctx, (ast.Store, ast.Del)):
            stores[n.id] = stores.get(n.id, 0) + 1
        elif isinstance(n, (ast.FunctionDef, ast.ClassDef)) and n is not fn:
            stores[n.name] = stores.get(n.name, 0) + 1
    gens = {}
    for d in fn.body:
        if isinstance(d, ast.FunctionDef) and stores.get(d.name) == 1 and not d.decorator_list and not (d.args.args or d.args.posonlyargs or d.args.kwonlyargs or d.args.vararg or d.args.kwarg) \
                and any(isinstance(x, (ast.Yield, ast.YieldFrom)) for x in core_own_walk(d)):
            uses = [x for x in ast.walk(fn) if isinstance(x, ast.Name) and x.id == d.name and isinstance(x.ctx, ast.Load)]
            if len(uses) == 1:
                gens[d.name] = d
    if not gens:
        if n_rw[0]:
            ast.fix_missing_locations(fn)
        return n_rw[0]
    nz = Normaliser(None)
    nz.keep_unclashing = True
    spliced = set()

    def is_gcall(e):
        return isinstance(e, ast.Call) and isinstance(e.func, ast.Name) and e.func.id in gens and not e.args and not e.keywords

    def splice(stmts):
        out = []
        for st in stmts:
            if isinstance(st, ast.Expr) and isinstance(st.value, ast.Call) and isinstance(st.value.func, ast.Attribute) and st.value.func.attr == "extend" \
                    and len(st.value.args) == 1 and not st.value.keywords and is_gcall(st.value.args[0]) \
                    and not any(isinstance(x, ast.Call) for x in ast.walk(st.value.func.value)):
                e = fresh("item")
                st = ast.copy_location(ast.For(ast.Name(e, ast.Store()), st.value.args[0],
                                               [ast.Expr(ast.Call(ast.Attribute(st.value.func.value, "append", ast.Load()), [ast.Name(e, ast.Load())], []))], []), st)
                ast.fix_missing_locations(st)
            elif isinstance(st, ast.Expr) and isinstance(st.value, ast.YieldFrom) and is_gcall(st.value.value):
                e = fresh("item")
                st = ast.copy_location(ast.For(ast.Name(e, ast.Store()), st.value.value, [ast.Expr(ast.Yield(ast.Name(e, ast.Load())))], []), st)
                ast.fix_missing_locations(st)
            if isinstance(st, ast.For) and is_gcall(st.iter):
                g = gens[st.iter.func.id]
                # names of the enclosing function outside the generator's own definition: what the spliced locals must not collide with
                nz.caller_names = {x.id for d_ in fn.body if d_ is not g for x in ast.walk(d_) if isinstance(x, ast.Name)} | {a.arg for a in ast.walk(fn.args) if isinstance(a, ast.arg)}
                yl = any(isinstance(x, (ast.Yield, ast.YieldFrom)) for x in ast.walk(ast.Module(body=st.body, type_ignores=[])))
                if yl:
                    # `for e in G(): yield e` -- the consumer itself yields: splice by hand (the generic fusion refuses yielding bodies)
                    fused = None
                    if len(st.body) == 1 and isinstance(st.body[0], ast.Expr) and isinstance(st.body[0].value, ast.Yield) and isinstance(st.target, ast.Name) \
                            and isinstance(st.body[0].value.value, ast.Name) and st.body[0].value.value.id == st.target.id \
                            and not any(isinstance(x, ast.Return) for x in ast.walk(g)):
                        fused = copy.deepcopy([b for b in g.body if not (isinstance(b, ast.Expr) and isinstance(b.value, ast.Constant))])
                else:
                    fused = nz._fuse(st, g, 0)
                if fused is not None:
                    spliced.add(g.name)
                    n_rw[0] += 1
                    out.extend(fused)
                    continue
            out.append(st)
        return out
    fn.body = each_block(fn.body, splice)
    fn.body = [d for d in fn.body if not (isinstance(d, ast.FunctionDef) and d.name in spliced)]
    ast.fix_missing_locations(fn)
    return n_rw[0]


def core_own_walk(fn):
    stack = list(reversed(fn.body))
    while stack:
        n = stack.pop()
        yield n
        if isinstance(n, (ast.FunctionDef, ast.AsyncFunctionDef, ast.Lambda, ast.ClassDef)):
            continue
        stack.extend(reversed(list(ast.iter_child_nodes(n))))


def extend_loops(fn) -> int:
    """APPEND-LOOP (in place): `for v in X: L.append(v)` -> `L.extend(X)` (X evaluated once either way; L is not X)"""
    k = [0]

    def conv(stmts):
        out = []
        for st in stmts:
            for fld in ("body", "orelse", "finalbody"):
                v = getattr(st, fld, None)
                if isinstance(v, list) and v and all(isinstance(x, ast.stmt) for x in v) and not isinstance(st, (ast.FunctionDef, ast.ClassDef)):
                    setattr(st, fld, conv(v))
            if isinstance(st, ast.For) and not st.orelse and isinstance(st.target, ast.Name) and len(st.body) == 1 and isinstance(st.body[0], ast.Expr) \
                    and isinstance(st.body[0].value, ast.Call) and isinstance(st.body[0].value.func, ast.Attribute) and st.body[0].value.func.attr == "append" \
                    and len(st.body[0].value.args) == 1 and not st.body[0].value.keywords and isinstance(st.body[0].value.args[0], ast.Name) \
                    and st.body[0].value.args[0].id == st.target.id and isinstance(st.body[0].value.func.value, ast.Name) \
                    and not any(isinstance(x, ast.Name) and x.id in (st.body[0].value.func.value.id, st.target.id) for x in ast.walk(st.iter)):
                L = st.body[0].value.func.value
                out.append(ast.copy_location(ast.Expr(ast.Call(ast.Attribute(L, "extend", ast.Load()), [st.iter], [])), st))
                k[0] += 1
                continue
            out.append(st)
        return out
    fn.body = conv(fn.body)
    if k[0]:
        ast.fix_missing_locations(fn)
    return k[0]


def unchain_assign(fn) -> int:
    """CHAIN (in place): `a = self.x = E` / `self.x = a = E` -> `self.x = E; a = self.x` (the attribute is the value's home, the name reads it);
    `a = b = E` with plain names -> `a = E; b = a`.  Plain attribute stores only (no subscripts / starred / tuple targets)."""
    k = [0]

    def conv(stmts):
        out = []
        for st in stmts:
            for fld in ("body", "orelse", "finalbody"):
                v = getattr(st, fld, None)
                if isinstance(v, list) and v and all(isinstance(x, ast.stmt) for x in v) and not isinstance(st, ast.ClassDef):
                    setattr(st, fld, conv(v))
            if isinstance(st, ast.Assign) and len(st.targets) > 1 and all(isinstance(t, (ast.Name, ast.Attribute)) for t in st.targets) \
                    and all(isinstance(t, ast.Name) or (isinstance(t.value, ast.Name) and t.value.id == "self") for t in st.targets):
                attrs = [t for t in st.targets if isinstance(t, ast.Attribute)]
                home = attrs[0] if attrs else st.targets[0]
                others = [t for t in st.targets if t is not home]
                names = {t.id for t in st.targets if isinstance(t, ast.Name)}
                if not any(isinstance(x, ast.Name) and x.id in names for x in ast.walk(st.value)):
                    k[0] += 1
                    out.append(ast.copy_location(ast.Assign([home], st.value), st))
                    for t in others:
                        src = copy.deepcopy(home)
                        for x in ast.walk(src):
                            if isinstance(x, (ast.Name, ast.Attribute)):
                                x.ctx = ast.Load()
                        out.append(ast.copy_location(ast.Assign([t], src), st))
                    continue
            out.append(st)
        return out
    fn.body = conv(fn.body)
    if k[0]:
        ast.fix_missing_locations(fn)
    return k[0]


def module_namedtuples(mod: ast.Module) -> Dict[str, tuple]:
    """module-level `X = namedtuple("X", [fields])` / `class X(NamedTuple): a: T ...` -> {X: (fields...)}"""
    out: Dict[str, tuple] = {}
    for st in mod.body:
        if isinstance(st, ast.Assign) and len(st.targets) == 1 and isinstance(st.targets[0], ast.Name) and isinstance(st.value, ast.Call) \
                and ast.unparse(st.value.func).split(".")[-1] == "namedtuple" and len(st.value.args) >= 2:
            f = st.value.args[1]
            if isinstance(f, (ast.List, ast.Tuple)) and all(isinstance(e, ast.Constant) and isinstance(e.value, str) for e in f.elts):
                out[st.targets[0].id] = tuple(e.value for e in f.elts)
            elif isinstance(f, ast.Constant) and isinstance(f.value, str):
                out[st.targets[0].id] = tuple(f.value.replace(",", " ").split())
        elif isinstance(st, ast.ClassDef) and any(ast.unparse(b).split(".")[-1] == "NamedTuple" for b in st.bases):
            out[st.name] = tuple(a.target.id for a in st.body if isinstance(a, ast.AnnAssign) and isinstance(a.target, ast.Name))
        elif isinstance(st, ast.ClassDef) and _is_plain_dataclass(st):
            # RECORD: a dataclass without a hand-written __init__ / __post_init__ / __setattr__ is its fields in declaration order (ClassVar entries are not fields)
            out[st.name] = tuple(a.target.id for a in st.body if isinstance(a, ast.AnnAssign) and isinstance(a.target, ast.Name) and "ClassVar" not in ast.unparse(a.annotation))
    return out


def _is_plain_dataclass(c: ast.ClassDef) -> bool:
    deco = any(ast.unparse(d.func if isinstance(d, ast.Call) else d).split(".")[-1] == "dataclass" for d in c.decorator_list)
    own = {m.name for m in c.body if isinstance(m, ast.FunctionDef)}
    return deco and not c.bases and not (own & {"__init__", "__post_init__", "__setattr__", "__getattr__", "__getattribute__", "__new__"})


PURE_BUILTINS = {"abs", "min", "max", "len", "float", "int", "bool", "round"}


def record_members(mod: ast.Module) -> Dict[str, Dict[str, ast.expr]]:
    """RECORD: for every module-level NamedTuple / plain dataclass: {member: expression over `self`} for its read-only single-return properties
    (pure built-ins allowed) and its class-level constants (`X: ClassVar[T] = literal`, `X = literal`)"""
    out: Dict[str, Dict[str, ast.expr]] = {}
    nts = module_namedtuples(mod)
    for c in mod.body:
        if not (isinstance(c, ast.ClassDef) and c.name in nts):
            continue
        mem: Dict[str, ast.expr] = {}
        setters = {ast.unparse(d).split(".")[0] for m in c.body if isinstance(m, ast.FunctionDef) for d in m.decorator_list if ast.unparse(d).endswith(".setter")}
        for m in c.body:
            if isinstance(m, (ast.Assign, ast.AnnAssign)) and getattr(m, "value", None) is not None:
                t = m.targets[0] if isinstance(m, ast.Assign) and len(m.targets) == 1 else getattr(m, "target", None)
                lit = m.value.operand if isinstance(m.value, ast.UnaryOp) and isinstance(m.value.op, ast.USub) else m.value
                if isinstance(t, ast.Name) and t.id not in nts[c.name] and isinstance(lit, ast.Constant) and isinstance(lit.value, (int, float, str, bool)):
                    mem[t.id] = m.value
            elif isinstance(m, ast.FunctionDef) and any(ast.unparse(d) == "property" for d in m.decorator_list) and m.name not in setters and len(m.args.args) == 1:
                body = [b for b in m.body if not (isinstance(b, ast.Expr) and isinstance(b.value, ast.Constant))]
                if len(body) == 1 and isinstance(body[0], ast.Return) and body[0].value is not None \
                        and not any(isinstance(x, (ast.Lambda, ast.Await, ast.Yield, ast.NamedExpr)) for x in ast.walk(body[0].value)) \
                        and all(isinstance(x.func, ast.Name) and x.func.id in PURE_BUILTINS for x in ast.walk(body[0].value) if isinstance(x, ast.Call)):
                    sp = m.args.args[0].arg

                    class S(ast.NodeTransformer):
                        def visit_Name(self, n):
                            return ast.copy_location(ast.Name("self", n.ctx), n) if n.id == sp else n
                    mem[m.name] = S().visit(copy.deepcopy(body[0].value))
        if mem:
            out[c.name] = mem
    return out


def subst_record_members(fn: ast.FunctionDef, recs: Dict[str, Dict[str, ast.expr]]) -> ast.FunctionDef:
    """a local bound once, by `v = R(...)`, to a record: `v.prop` is the property's expression over v, `v.CONST` the class constant"""
    if not recs:
        return fn
    fn = copy.deepcopy(fn)
    counts: Dict[str, int] = {}
    kind: Dict[str, str] = {}
    for a in ast.walk(fn):
        if isinstance(a, ast.Name) and isinstance(a.ctx, ast.Store):
            counts[a.id] = counts.get(a.id, 0) + 1
        if isinstance(a, ast.Assign) and len(a.targets) == 1 and isinstance(a.targets[0], ast.Name) and isinstance(a.value, ast.Call) \
                and isinstance(a.value.func, ast.Name) and a.value.func.id in recs:
            kind[a.targets[0].id] = a.value.func.id
    kind = {v: r for v, r in kind.items() if counts.get(v) == 1}
    if not kind:
        return fn
    for _ in range(4):
        hit = [False]

        class T(ast.NodeTransformer):
            def visit_Attribute(self, n):
                self.generic_visit(n)
                if isinstance(n.ctx, ast.Load) and isinstance(n.value, ast.Name) and n.value.id in kind and n.attr in recs[kind[n.value.id]]:
                    v = n.value.id
                    hit[0] = True

                    class R(ast.NodeTransformer):
                        def visit_Name(self, m):
                            return ast.copy_location(ast.Name(v, m.ctx), m) if m.id == "self" else m
                    return ast.copy_location(R().visit(copy.deepcopy(recs[kind[v]][n.attr])), n)
                return n
        fn = T().visit(fn)
        if not hit[0]:
            break
    ast.fix_missing_locations(fn)
    return fn


def module_constants(mod: ast.Module) -> Dict[str, ast.expr]:
    """module-level NAME = <number / string / bool literal>, assigned exactly once and never declared global in a function"""
    counts: Dict[str, int] = {}
    vals: Dict[str, ast.expr] = {}
    for s in mod.body:
        tg = []
        if isinstance(s, ast.Assign):
            tg = [t for t in s.targets]
            v = s.value
        elif isinstance(s, ast.AnnAssign) and s.value is not None:
            tg, v = [s.target], s.value
        else:
            for n in ast.walk(s):
                if isinstance(n, ast.Global):
                    for nm in n.names:
                        counts[nm] = counts.get(nm, 0) + 2
            continue
        for t in tg:
            for n in ast.walk(t):
                if isinstance(n, ast.Name):
                    counts[n.id] = counts.get(n.id, 0) + 1
            if isinstance(t, ast.Name):
                lit = v
                if isinstance(lit, ast.UnaryOp) and isinstance(lit.op, ast.USub):
                    lit = lit.operand
                if isinstance(lit, ast.Constant) and isinstance(lit.value, (int, float, str, bool)):
                    vals[t.id] = v
    return {k: v for k, v in vals.items() if counts.get(k) == 1}


class Normaliser:
    def __init__(self, resolve_call: Optional[Callable[[ast.Call], Optional[ast.FunctionDef]]] = None, max_inline=4,
                 consts: Optional[Dict[str, ast.expr]] = None, namedtuples: Optional[Dict[str, tuple]] = None):
        self.consts = consts or {}
        self.namedtuples: Dict[str, tuple] = dict(namedtuples or {})
        self.resolve_call = resolve_call
        self.max_inline = max_inline
        self.inlined: List[str] = []
        self.k = 0
        self.caller_names: set = set()

    # ---------------------------------------------------------------- INLINE
    def _inlinable(self, h: ast.FunctionDef) -> bool:
        if h.args.vararg or h.args.kwarg:
            return False
        body = [s for s in h.body if not (isinstance(s, ast.Expr) and isinstance(s.value, ast.Constant))]
        for n in ast.walk(ast.Module(body=body, type_ignores=[])):
            if isinstance(n, (ast.Yield, ast.YieldFrom, ast.FunctionDef, ast.ClassDef, ast.Global, ast.Nonlocal)):
                return False
            if isinstance(n, ast.Lambda):
                # a lambda that only uses its own parameters (a sort key) captures nothing and moves freely
                own = {a.arg for a in n.args.posonlyargs + n.args.args + n.args.kwonlyargs}
                if any(isinstance(x, ast.Name) and x.id not in own for x in ast.walk(n.body)):
                    return False
        rets = [n for n in ast.walk(ast.Module(body=body, type_ignores=[])) if isinstance(n, ast.Return)]
        if len(rets) > 1 or (rets and rets[0] is not body[-1]):
            return False
        return True

    @staticmethod
    def single_exit(h: ast.FunctionDef) -> Optional[ast.FunctionDef]:
        """a helper with guard returns (`if c: ...; return a` ... `return d`, nested ifs allowed; no return inside a loop / try / with) rewritten
        with one result variable and a single final return: semantically the same function"""
        rname = "ret__"

        def has_ret(x):
            return any(isinstance(n, ast.Return) for n in ast.walk(x))

        def conv(stmts) -> Optional[List[ast.stmt]]:
            out: List[ast.stmt] = []
            for i, st in enumerate(stmts):
                if isinstance(st, ast.Return):
                    out.append(ast.Assign([ast.Name(rname, ast.Store())], st.value if st.value is not None else ast.Constant(None), lineno=st.lineno))
                    return out            # anything after a return is dead
                if isinstance(st, ast.If) and has_ret(st):
                    rest = list(stmts[i + 1:])
                    b_ends = _ends_with_exit(st.body) and isinstance(st.body[-1], ast.Return)
                    o_ends = bool(st.orelse) and isinstance(st.orelse[-1], ast.Return)
                    body = conv(st.body + ([] if b_ends else rest))
                    orelse = conv((st.orelse or []) + ([] if o_ends else rest))
                    if body is None or orelse is None:
                        return None
                    new = ast.If(st.test, body or [ast.Pass()], orelse, lineno=st.lineno)
                    out.append(new)
                    return out
                if has_ret(st):
                    return None           # a return inside a loop / try / with
                out.append(st)
            # fell off the end without a return
            out.append(ast.Assign([ast.Name(rname, ast.Store())], ast.Constant(None), lineno=getattr(stmts[-1], "lineno", 0) if stmts else 0))
            return out
        body = [s_ for s_ in h.body if not (isinstance(s_, ast.Expr) and isinstance(s_.value, ast.Constant))]
        if any(isinstance(n, ast.Name) and n.id == rname for n in ast.walk(h)):
            return None
        new = conv(copy.deepcopy(body))
        if new is None:
            return None
        h2 = copy.copy(h)
        h2.body = new + [ast.Return(ast.Name(rname, ast.Load()), lineno=h.lineno)]
        ast.fix_missing_locations(h2)
        return h2

    def _expand(self, call: ast.Call, h: ast.FunctionDef, target, depth) -> Optional[List[ast.stmt]]:
        if not self._inlinable(h) and depth <= self.max_inline:
            nrets = sum(isinstance(n, ast.Return) for n in ast.walk(h))
            if nrets >= 1:
                h2 = self.single_exit(h)
                if h2 is not None and self._inlinable(h2):
                    h = h2
        if not self._inlinable(h) or depth > self.max_inline:
            return None
        deco = {ast.unparse(d) for d in h.decorator_list}
        pos = [a.arg for a in h.args.posonlyargs + h.args.args]
        keep = {}
        rcv = self._receiver(call, h)
        if rcv is not None and pos:
            keep[pos[0]] = rcv                      # self / cls / the receiver object (class) stay what they are
            pos = pos[1:]
        if any(isinstance(a, ast.Starred) for a in call.args) or any(k.arg is None for k in call.keywords) or len(call.args) > len(pos):
            return None
        self.k += 1
        pre = f"{h.name}__{self.k}__"
        params = pos + [a.arg for a in h.args.kwonlyargs]
        bound = dict(zip(pos, call.args))
        for k in call.keywords:
            if k.arg not in params or k.arg in bound:
                return None
            bound[k.arg] = k.value
        defaults = dict(zip(pos[len(pos) - len(h.args.defaults):], h.args.defaults)) if h.args.defaults else {}
        defaults.update({a.arg: d for a, d in zip(h.args.kwonlyargs, h.args.kw_defaults) if d is not None})
        local = set(params)
        assigned = set()
        for n in ast.walk(h):
            if isinstance(n, ast.Name) and isinstance(n.ctx, ast.Store):
                local.add(n.id)
                assigned.add(n.id)
        body = copy.deepcopy([s for s in h.body if not (isinstance(s, ast.Expr) and isinstance(s.value, ast.Constant))])
        # names written back by the call: k-th returned name assigned to the caller's variable of the same name
        back = set()
        ret = body[-1] if body and isinstance(body[-1], ast.Return) else None
        if ret is not None and ret.value is not None and target not in (None, "return") and len(target) == 1:
            rv, tv = ret.value, target[0]
            rl = rv.elts if isinstance(rv, ast.Tuple) else [rv]
            tl = tv.elts if isinstance(tv, (ast.Tuple, ast.List)) else [tv]
            if len(rl) == len(tl):
                back = {r.id for r, t in zip(rl, tl) if isinstance(r, ast.Name) and isinstance(t, ast.Name) and r.id == t.id}
        same_arg = {p for p in params if isinstance(bound.get(p), ast.Name) and bound[p].id == p}
        keepname = set()
        for L in local:
            if L in same_arg and (L not in assigned or L in back):
                keepname.add(L)                    # the caller's variable itself: read only, or updated and handed back under the same name
            elif L not in params and L in back:
                keepname.add(L)                    # a result built under the name it is returned to
            elif L not in self.caller_names and L not in keep:
                keepname.add(L)                    # no clash with anything in the caller
        out: List[ast.stmt] = []
        direct = {}
        for p in params:
            if p in same_arg and p in keepname:
                continue
            v = bound.get(p, defaults.get(p))
            if v is None:
                return None
            if isinstance(v, ast.Name) and p not in assigned and p in bound and v.id not in keep and v.id not in keep.values():
                # the parameter is never rebound by the helper and the helper cannot rebind the caller's variable: the parameter IS that variable
                direct[p] = v.id
                continue
            out.append(ast.Assign([ast.Name(p if p in keepname else pre + p, ast.Store())], copy.deepcopy(v), lineno=call.lineno))
        for s in body:
            for n in ast.walk(s):
                if isinstance(n, ast.Name):
                    if n.id in keep:
                        n.id = keep[n.id]
                    elif n.id in direct:
                        n.id = direct[n.id]
                    elif n.id in local and n.id not in keepname:
                        n.id = pre + n.id
        self.caller_names |= {(L if L in keepname else pre + L) for L in local}
        if body and isinstance(body[-1], ast.Return):
            r = body.pop()
            if target is not None and target != "return" and r.value is not None and len(target) == 1 and isinstance(target[0], ast.Name) \
                    and isinstance(r.value, ast.Name) and r.value.id.endswith("ret__") \
                    and not any(isinstance(n, ast.Name) and n.id == target[0].id for s_ in body for n in ast.walk(s_)) \
                    and not any(isinstance(n, ast.Name) and n.id == target[0].id for s_ in out for n in ast.walk(s_)):
                # the single-exit result variable IS the caller's target: build the result under that name
                for s_ in body:
                    for n in ast.walk(s_):
                        if isinstance(n, ast.Name) and n.id == r.value.id:
                            n.id = target[0].id
            elif target is not None and target != "return" and r.value is not None:
                body.append(ast.Assign([copy.deepcopy(t) for t in target], r.value, lineno=call.lineno))
            elif target == "return":
                body.append(r)
        elif target is not None and target != "return":
            body.append(ast.Assign([copy.deepcopy(t) for t in target], ast.Constant(None), lineno=call.lineno))
        self.inlined.append(h.name)
        return out + body

    # ---------------------------------------------------------------- FUSE (generator consumed by a for loop)
    @staticmethod
    def desugar_yield_from(h: ast.FunctionDef) -> ast.FunctionDef:
        """`yield from repeat(v, n)` -> `for _ in range(n): yield v`;  `yield from (E for T in I)` -> `for T in I: yield E`;
        `yield from X` (X call-free) -> `for y in X: yield y`"""
        if not any(isinstance(n, ast.YieldFrom) for n in ast.walk(h)):
            return h
        h = copy.deepcopy(h)
        k = [0]

        def conv(stmts):
            out = []
            for st in stmts:
                for fld in ("body", "orelse", "finalbody"):
                    v = getattr(st, fld, None)
                    if isinstance(v, list) and v and all(isinstance(x, ast.stmt) for x in v):
                        setattr(st, fld, conv(v))
                if isinstance(st, ast.Expr) and isinstance(st.value, ast.YieldFrom):
                    e = st.value.value
                    k[0] += 1
                    var = f"yf__{k[0]}"
                    if isinstance(e, ast.Call) and ast.unparse(e.func).split(".")[-1] == "repeat" and len(e.args) == 2 and not e.keywords:
                        out.append(ast.copy_location(ast.For(ast.Name(var, ast.Store()), ast.Call(ast.Name("range", ast.Load()), [e.args[1]], []),
                                                             [ast.Expr(ast.Yield(e.args[0]))], []), st))
                        continue
                    if isinstance(e, ast.GeneratorExp) and len(e.generators) == 1 and not e.generators[0].is_async:
                        g = e.generators[0]
                        body = [ast.Expr(ast.Yield(e.elt))]
                        for c_ in reversed(g.ifs):
                            body = [ast.If(c_, body, [])]
                        out.append(ast.copy_location(ast.For(g.target, g.iter, body, []), st))
                        continue
                    if not any(isinstance(x, ast.Call) for x in ast.walk(e)) or isinstance(e, ast.Call):
                        out.append(ast.copy_location(ast.For(ast.Name(var, ast.Store()), e, [ast.Expr(ast.Yield(ast.Name(var, ast.Load())))], []), st))
                        continue
                out.append(st)
            return out
        h.body = conv(h.body)
        ast.fix_missing_locations(h)
        return h

    def _receiver(self, call: ast.Call, h: ast.FunctionDef):
        """what the first parameter of `h` stands for at this call: 'self' / 'cls' for the analysed class's own methods, the receiver name for a
        method of another module-level class (`plan.step_sizes()` / `_StepPlan.between(...)`); None for a static method / plain function"""
        deco = {ast.unparse(d) for d in h.decorator_list}
        if "staticmethod" in deco or not isinstance(call.func, ast.Attribute):
            return None
        v = call.func.value
        if isinstance(v, ast.Name):
            if any(x is h or (isinstance(x, ast.FunctionDef) and x.name == h.name and x.lineno == h.lineno) for m_ in SIBLINGS.values() for x in m_.body):
                return None                         # `common.helper(...)`: a plain function of a sibling module imported as a module
            return v.id
        if isinstance(v, ast.Call) and isinstance(v.func, ast.Name) and v.func.id == "super":
            return "cls" if "classmethod" in deco else "self"
        return None

    def _fuse(self, loop: ast.For, h: ast.FunctionDef, depth) -> Optional[List[ast.stmt]]:
        """for T in self.g(a): BODY   ->   g's body with every `yield E` replaced by `T = E; BODY`
        (g only yields -- no send(), no return value, no try/finally around a yield; BODY has no break / return, so the generator always runs to its end)"""
        call = loop.iter
        if loop.orelse or depth > self.max_inline or h.args.vararg or h.args.kwarg:
            return None
        h = self.desugar_yield_from(h)
        hb = [s for s in h.body if not (isinstance(s, ast.Expr) and isinstance(s.value, ast.Constant))]
        for n in ast.walk(ast.Module(body=hb, type_ignores=[])):
            if isinstance(n, (ast.YieldFrom, ast.FunctionDef, ast.Lambda, ast.ClassDef, ast.Try, ast.With, ast.Global, ast.Nonlocal)):
                return None
            if isinstance(n, ast.Return) and n.value is not None:
                return None
            if isinstance(n, ast.Yield) and n.value is None:
                return None
        for n in ast.walk(ast.Module(body=hb, type_ignores=[])):
            if isinstance(n, ast.Yield):
                pass
        # yields must be statements of their own
        ystmts = [n for n in ast.walk(ast.Module(body=hb, type_ignores=[])) if isinstance(n, ast.Expr) and isinstance(n.value, ast.Yield)]
        nyield = sum(1 for n in ast.walk(ast.Module(body=hb, type_ignores=[])) if isinstance(n, ast.Yield))
        if nyield != len(ystmts) or not ystmts:
            return None
        for n in ast.walk(ast.Module(body=loop.body, type_ignores=[])):
            if isinstance(n, (ast.Break, ast.Return, ast.Yield, ast.YieldFrom)):
                return None
        pos = [a.arg for a in h.args.posonlyargs + h.args.args]
        keep = {}
        rcv = self._receiver(call, h)
        if rcv is not None and pos:
            keep[pos[0]] = rcv
            pos = pos[1:]
        if any(isinstance(a, ast.Starred) for a in call.args) or any(k.arg is None for k in call.keywords) or len(call.args) > len(pos):
            return None
        params = pos + [a.arg for a in h.args.kwonlyargs]
        bound = dict(zip(pos, call.args))
        for k in call.keywords:
            if k.arg not in params or k.arg in bound:
                return None
            bound[k.arg] = k.value
        defaults = dict(zip(pos[len(pos) - len(h.args.defaults):], h.args.defaults)) if h.args.defaults else {}
        defaults.update({a.arg: d for a, d in zip(h.args.kwonlyargs, h.args.kw_defaults) if d is not None})
        self.k += 1
        pre = f"{h.name}__{self.k}__"
        local = set(params)
        for n in ast.walk(h):
            if isinstance(n, ast.Name) and isinstance(n.ctx, ast.Store):
                local.add(n.id)
        # a parameter that is handed the caller's variable of the same name keeps its name (no copy needed: the generator does not assign it)
        assigned_in_h = {n.id for n in ast.walk(h) if isinstance(n, ast.Name) and isinstance(n.ctx, ast.Store)}
        same = {p_ for p_ in params if isinstance(bound.get(p_), ast.Name) and bound[p_].id == p_ and p_ not in assigned_in_h}
        out: List[ast.stmt] = []
        for p_ in params:
            if p_ in same:
                continue
            v = bound.get(p_, defaults.get(p_))
            if v is None:
                return None
            out.append(ast.Assign([ast.Name(pre + p_, ast.Store())], copy.deepcopy(v), lineno=loop.lineno))
        body = copy.deepcopy(hb)

        free = {L for L in local if L not in params and L not in self.caller_names} if getattr(self, "keep_unclashing", False) else set()
        self.caller_names |= free

        def rename(node):
            for n in ast.walk(node):
                if isinstance(n, ast.Name):
                    if n.id in keep:
                        n.id = keep[n.id]
                    elif n.id in local and n.id not in same and n.id not in free:
                        n.id = pre + n.id

        def subst(block):
            res = []
            for st in block:
                if isinstance(st, ast.Expr) and isinstance(st.value, ast.Yield):
                    res.append(ast.Assign([copy.deepcopy(loop.target)], st.value.value, lineno=loop.lineno))
                    res.extend(copy.deepcopy(loop.body))
                    continue
                for fld in ("body", "orelse"):
                    if hasattr(st, fld) and isinstance(getattr(st, fld), list):
                        setattr(st, fld, subst(getattr(st, fld)))
                res.append(st)
            return res
        for st in body:
            rename(st)
        body = subst(body)
        if body and isinstance(body[-1], ast.Return):
            body.pop()
        if any(isinstance(n, ast.Return) for st in body for n in ast.walk(st)):
            return None                           # an early bare return in the generator: not straight fusion
        self.inlined.append(h.name)
        return out + body

    def _hoist(self, s) -> Optional[List[ast.stmt]]:
        """`f(g(self.h(a)))` as a statement -> `t = self.h(a); f(g(t))` when self.h is the only resolvable call nested in the statement's value and
        everything evaluated before it is side-effect free (names, attributes, constants)"""
        if not isinstance(s, (ast.Assign, ast.Expr, ast.Return, ast.AugAssign)) or getattr(s, "value", None) is None:
            return None
        if isinstance(s, ast.Assign) and len(s.targets) == 1 and isinstance(s.targets[0], ast.Subscript) \
                and not any(isinstance(n, ast.Call) for n in ast.walk(s.value)) and not any(isinstance(n, ast.Call) for n in ast.walk(s.targets[0].value)):
            # `X[self.h(a)] = v` with a call-free v and X: the index helper is the only call of the statement
            sl = s.targets[0].slice
            cands = [c for c in ast.walk(sl) if isinstance(c, ast.Call)]
            if len(cands) == 1 and self.resolve_call(cands[0]) is not None and not any(isinstance(n, ast.Call) for a_ in cands[0].args for n in ast.walk(a_)):
                h = self.resolve_call(cands[0])
                if self._inlinable(h) and not any(isinstance(n, ast.Yield) for n in ast.walk(h)):
                    self.k += 1
                    tmp = f"{h.name}__r{self.k}"
                    self.caller_names.add(tmp)
                    cands[0]._hoist_marker = True

                    class R3(ast.NodeTransformer):
                        def visit_Call(self_, n):
                            if getattr(n, "_hoist_marker", False):
                                return ast.Name(tmp, ast.Load())
                            return self_.generic_visit(n)
                    s3 = copy.deepcopy(s)
                    s3.targets[0].slice = R3().visit(s3.targets[0].slice)
                    del cands[0]._hoist_marker
                    return [ast.copy_location(ast.Assign([ast.Name(tmp, ast.Store())], copy.deepcopy(cands[0])), s), s3]
        top = s.value
        cands = [c for c in ast.walk(top) if isinstance(c, ast.Call) and c is not top and self.resolve_call(c) is not None]
        if len(cands) != 1:
            return None
        c = cands[0]
        h = self.resolve_call(c)
        if not self._inlinable(h) or any(isinstance(n, ast.Yield) for n in ast.walk(h)):
            return None
        # other calls may only be ancestors of c (they run after it); arguments of c itself must be call-free
        parents = {}
        for n in ast.walk(top):
            for ch in ast.iter_child_nodes(n):
                parents[ch] = n
        anc = set()
        p_ = c
        while p_ in parents:
            p_ = parents[p_]
            anc.add(id(p_))
        for n in ast.walk(top):
            if isinstance(n, ast.Call) and n is not c and id(n) not in anc:
                return None
            if isinstance(n, (ast.Lambda, ast.ListComp, ast.SetComp, ast.DictComp, ast.GeneratorExp, ast.IfExp, ast.BoolOp, ast.NamedExpr, ast.Await)):
                return None
        self.k += 1
        tmp = f"{h.name}__r{self.k}"
        self.caller_names.add(tmp)

        class R(ast.NodeTransformer):
            def visit_Call(self_, n):
                if n is c:
                    return ast.Name(tmp, ast.Load())
                return self_.generic_visit(n)
        s2 = copy.copy(s)
        s2.value = R().visit(copy.deepcopy(top)) if False else None
        # replace by identity (deepcopy would lose `is`): rebuild with a marker
        c._hoist_marker = True

        class R2(ast.NodeTransformer):
            def visit_Call(self_, n):
                if getattr(n, "_hoist_marker", False):
                    return ast.Name(tmp, ast.Load())
                return self_.generic_visit(n)
        newtop = R2().visit(copy.deepcopy(top))
        del c._hoist_marker
        s2.value = newtop
        call_copy = copy.deepcopy(c)
        return [ast.copy_location(ast.Assign([ast.Name(tmp, ast.Store())], call_copy), s), s2]

    def inline_block(self, stmts, depth=0):
        if self.resolve_call is None:
            return stmts
        out = []
        for s in stmts:
            lt = getattr(self.resolve_call, "local_types", None)
            if lt is not None and isinstance(s, ast.Assign) and len(s.targets) == 1 and isinstance(s.targets[0], ast.Name) and isinstance(s.value, ast.Call) \
                    and isinstance(s.value.func, ast.Name) and s.value.func.id in getattr(self.resolve_call, "classes", {}):
                lt[s.targets[0].id] = s.value.func.id          # `x = ClassName(...)`: methods of x resolve in ClassName
            if isinstance(s, ast.For) and isinstance(s.iter, ast.Name) and not s.orelse:
                # `g = self.gen(a); <effect-free statements>; for x in g:` -- the generator object is only created early; nothing it reads
                # is written in between, so creating it at the loop is the same
                nm = s.iter.id
                k_def = next((k_ for k_ in range(len(out) - 1, -1, -1) if isinstance(out[k_], ast.Assign) and len(out[k_].targets) == 1
                              and isinstance(out[k_].targets[0], ast.Name) and out[k_].targets[0].id == nm), None)
                if k_def is not None and isinstance(out[k_def].value, ast.Call):
                    hg = self.resolve_call(out[k_def].value)
                    between = out[k_def + 1:]
                    quiet = all(isinstance(b, ast.Assign) and not any(isinstance(x, (ast.Call, ast.Await, ast.Yield)) for x in ast.walk(b))
                                and all(isinstance(t, ast.Name) for t in b.targets) for b in between)
                    reads_between = {x.id for b in between for x in ast.walk(b) if isinstance(x, ast.Name)}
                    uses = sum(1 for st_ in stmts for x in ast.walk(st_) if isinstance(x, ast.Name) and x.id == nm and isinstance(x.ctx, ast.Load))
                    arg_names = {x.id for x in ast.walk(out[k_def].value) if isinstance(x, ast.Name)}
                    stores_between = {t.id for b in between for t in getattr(b, "targets", []) if isinstance(t, ast.Name)}
                    if hg is not None and any(isinstance(n_, ast.Yield) for n_ in ast.walk(hg)) and quiet and uses == 1 and nm not in reads_between \
                            and not (arg_names & stores_between):
                        s = copy.copy(s)
                        s.iter = out[k_def].value
                        del out[k_def]
            if isinstance(s, ast.For) and isinstance(s.iter, ast.Call):
                h = self.resolve_call(s.iter)
                if h is not None and any(isinstance(n, ast.Yield) for n in ast.walk(h)):
                    fused = self._fuse(s, h, depth)
                    if fused is not None:
                        out.extend(self.inline_block(fused, depth + 1))
                        continue
            hoisted = self._hoist(s)
            if hoisted is not None:
                out.extend(self.inline_block(hoisted, depth))
                continue
            call, target = None, None
            if isinstance(s, ast.Assign) and isinstance(s.value, ast.Call):
                call, target = s.value, s.targets
            elif isinstance(s, ast.Expr) and isinstance(s.value, ast.Call):
                call, target = s.value, None
            elif isinstance(s, ast.Return) and isinstance(s.value, ast.Call):
                call, target = s.value, "return"
            h = self.resolve_call(call) if call is not None else None
            if h is not None and len(call.args) == 1 and isinstance(call.args[0], ast.Starred) and not call.keywords and not h.args.vararg \
                    and not h.args.defaults and not h.args.kwonlyargs:
                # `self.h(*E)`: E unpacks into exactly h's positional parameters -- `t0, t1 = E; self.h(t0, t1)`
                deco_ = {ast.unparse(d) for d in h.decorator_list}
                npos = len(h.args.posonlyargs + h.args.args) - (0 if "staticmethod" in deco_ or isinstance(call.func, ast.Name) else 1)
                if npos >= 1:
                    self.k += 1
                    tmps = [f"{h.name}__a{self.k}_{i}" for i in range(npos)]
                    self.caller_names |= set(tmps)
                    pre = ast.copy_location(ast.Assign([ast.Tuple([ast.Name(t_, ast.Store()) for t_ in tmps], ast.Store())], call.args[0].value), s)
                    call.args = [ast.Name(t_, ast.Load()) for t_ in tmps]
                    ast.fix_missing_locations(pre)
                    out.extend(self.inline_block([pre], depth))
            if h is not None:
                ex = self._expand(call, h, target if target != "return" else "return", depth)
                if ex is not None:
                    if target == "return" and not (ex and isinstance(ex[-1], ast.Return)):
                        ex.append(ast.Return(None))
                    out.extend(self.inline_block(ex, depth + 1))
                    continue
            for fld in ("body", "orelse", "finalbody"):
                if hasattr(s, fld) and isinstance(getattr(s, fld), list) and not isinstance(s, (ast.FunctionDef, ast.ClassDef)):
                    setattr(s, fld, self.inline_block(getattr(s, fld), depth))
            if isinstance(s, ast.Try):
                for hd in s.handlers:
                    hd.body = self.inline_block(hd.body, depth)
            out.append(s)
        return out

    # ---------------------------------------------------------------- SPLIT / EXIT / POLAR / TAIL
    def block(self, stmts, in_loop=False) -> List[ast.stmt]:
        out: List[ast.stmt] = []
        for i, s in enumerate(stmts):
            if isinstance(s, ast.AnnAssign) and s.value is not None and isinstance(s.target, ast.Name) and s.simple:
                s = ast.copy_location(ast.Assign([s.target], s.value), s)       # `x: T = e` binds like `x = e`
            if isinstance(s, ast.Assign) and len(s.targets) == 1 and isinstance(s.targets[0], (ast.Tuple, ast.List)) \
                    and isinstance(s.value, (ast.Tuple, ast.List)) and len(s.targets[0].elts) == len(s.value.elts) \
                    and not any(isinstance(e, ast.Starred) for e in s.targets[0].elts + s.value.elts):
                # only when no target is read by a later element (a, b = b, a must stay)
                names = [ast.unparse(t) for t in s.targets[0].elts]
                reads = [{ast.unparse(n) for n in ast.walk(v) if isinstance(n, (ast.Name, ast.Attribute, ast.Subscript))} for v in s.value.elts]
                if not any(names[a] in reads[b] for a in range(len(names)) for b in range(a + 1, len(names))):
                    for t, v in zip(s.targets[0].elts, s.value.elts):
                        if isinstance(t, ast.Name) and isinstance(v, ast.Name) and t.id == v.id:
                            continue                      # x = x
                        out.append(ast.copy_location(ast.Assign([t], v), s))
                    continue
            if isinstance(s, ast.Assign) and len(s.targets) == 1 and isinstance(s.targets[0], ast.Name) and isinstance(s.value, ast.Name) \
                    and s.targets[0].id == s.value.id:
                continue
            if isinstance(s, ast.If):
                s = copy.copy(s)
                s.body = self.block(s.body, in_loop)
                s.orelse = self.block(s.orelse, in_loop)
                rest = stmts[i + 1:]
                if not s.orelse and _ends_with_exit(s.body) and rest:
                    s.orelse = self.block(rest, in_loop)
                    out.extend(self.canon_if(s))
                    return out
                out.extend(self.canon_if(s))
                continue
            if isinstance(s, (ast.For, ast.While)):
                s = copy.copy(s)
                s.body = self.strip_tail_continue(self.block(s.body, True))
                s.orelse = self.block(s.orelse, in_loop)
                out.append(s)
                continue
            if isinstance(s, (ast.With,)):
                s = copy.copy(s)
                s.body = self.block(s.body, in_loop)
                out.append(s)
                continue
            if isinstance(s, ast.Try):
                s = copy.copy(s)
                s.body = self.block(s.body, in_loop)
                s.orelse = self.block(s.orelse, in_loop)
                s.finalbody = self.block(s.finalbody, in_loop)
                hs = []
                for hd in s.handlers:
                    hd = copy.copy(hd)
                    hd.body = self.block(hd.body, in_loop)
                    hs.append(hd)
                s.handlers = hs
                out.append(s)
                continue
            out.append(s)
        return out

    def canon_if(self, s: ast.If) -> List[ast.stmt]:
        body = [x for x in s.body if not isinstance(x, ast.Pass)]
        orelse = [x for x in s.orelse if not isinstance(x, ast.Pass)]
        test = s.test
        # an arm that only raises is a guard: `if <bad>: raise` followed, un-nested, by the other arm
        if len(orelse) == 1 and isinstance(orelse[0], ast.Raise) and body:
            return [ast.copy_location(ast.If(neg(test), orelse, []), s)] + body
        if len(body) == 1 and isinstance(body[0], ast.Raise) and orelse:
            return [ast.copy_location(ast.If(test, body, []), s)] + orelse
        if not body and orelse:
            test, body, orelse = neg(test), orelse, []
        elif body and orelse and is_negative(test):
            test, body, orelse = neg(test), orelse, body
        n = ast.If(test, body or [ast.Pass()], orelse)
        return [ast.copy_location(n, s)]

    def strip_tail_continue(self, block):
        block = list(block)
        while block and isinstance(block[-1], ast.Continue):
            block.pop()
        if block and isinstance(block[-1], ast.If):
            s = block[-1]
            b = self.strip_tail_continue(s.body)
            o = self.strip_tail_continue(s.orelse)
            b = [x for x in b if not isinstance(x, ast.Pass)]
            o = [x for x in o if not isinstance(x, ast.Pass)]
            if not b and not o:
                block.pop()
            else:
                block[-1:] = self.canon_if(ast.copy_location(ast.If(s.test, b or [ast.Pass()], o), s))
        return block

    # ---------------------------------------------------------------- VERSION
    def version_block(self, stmts):
        """`v = a; ...; v = f(v)` at the same nesting level: the first definition and its uses up to the redefinition become `v#1`
        (only plain statements in between: no loop / if / try that assigns or could skip), so that each version is a single assignment"""
        out = list(stmts)
        for s in out:
            for fld in ("body", "orelse", "finalbody"):
                if hasattr(s, fld) and isinstance(getattr(s, fld), list) and not isinstance(s, (ast.FunctionDef, ast.ClassDef)):
                    setattr(s, fld, self.version_block(getattr(s, fld)))
        last_def: Dict[str, int] = {}
        for i, s in enumerate(out):
            simple = isinstance(s, (ast.Assign, ast.AugAssign, ast.AnnAssign, ast.Expr, ast.Assert, ast.Pass))
            if not simple:
                # a compound statement: forget versions of every name it may assign or read across iterations
                touched = {n.id for n in ast.walk(s) if isinstance(n, ast.Name)}
                for nm in list(last_def):
                    if nm in touched:
                        del last_def[nm]
                continue
            name_targets = [t for t in s.targets if isinstance(t, ast.Name)] if isinstance(s, ast.Assign) else []
            if isinstance(s, ast.Assign) and len(name_targets) == 1 and all(isinstance(t, (ast.Name, ast.Subscript, ast.Attribute)) for t in s.targets):
                # `x = e` or `obj[k] = x = e`: one local is defined here
                nm = name_targets[0].id
                if nm in last_def:
                    j = last_def[nm]
                    self.k += 1
                    new = f"{nm}__v{self.k}"
                    # rename the earlier definition and every use after it up to and including this statement's right-hand side
                    for t in out[j].targets:
                        if isinstance(t, ast.Name) and t.id == nm:
                            t.id = new
                    for k2 in range(j + 1, i + 1):
                        st = out[k2]
                        for n in ast.walk(st.value if k2 == i else st):
                            if isinstance(n, ast.Name) and n.id == nm and isinstance(n.ctx, ast.Load):
                                n.id = new
                    self.caller_names.add(new)
                last_def[nm] = i
            else:
                # any other store to a name (tuple target, augmented) ends its version chain
                for n in ast.walk(s):
                    if isinstance(n, ast.Name) and isinstance(n.ctx, ast.Store) and n.id in last_def:
                        del last_def[n.id]
                if isinstance(s, ast.AugAssign) and isinstance(s.target, ast.Name):
                    last_def.pop(s.target.id, None)
        return out

    # ---------------------------------------------------------------- ALIAS
    def alias(self, fn: ast.FunctionDef):
        counts: Dict[str, int] = {}
        defs: Dict[str, ast.Assign] = {}
        params = {a.arg for a in fn.args.posonlyargs + fn.args.args + fn.args.kwonlyargs}
        if fn.args.vararg:
            params.add(fn.args.vararg.arg)
        if fn.args.kwarg:
            params.add(fn.args.kwarg.arg)
        for n in ast.walk(fn):
            if isinstance(n, ast.Name) and isinstance(n.ctx, (ast.Store, ast.Del)):
                counts[n.id] = counts.get(n.id, 0) + 1
            if isinstance(n, ast.Assign) and len(n.targets) == 1 and isinstance(n.targets[0], ast.Name):
                defs[n.targets[0].id] = n
            if isinstance(n, ast.AugAssign) and isinstance(n.target, ast.Name):
                counts[n.target.id] = counts.get(n.target.id, 0) + 1
        for p in params:
            counts[p] = counts.get(p, 0) + 1
        stable = lambda e: all(counts.get(x.id, 0) <= 1 for x in ast.walk(e) if isinstance(x, ast.Name))
        # an attribute read is only "the same thing later" if nothing in the function stores that attribute (or rewrites the object's
        # attributes wholesale: set_params / setattr / __dict__.update) -- otherwise the local is a snapshot and stays a local
        # (stores / calls that come after the definition in source order, or anywhere inside a loop that also contains the definition)
        attr_stores = [(n.attr, getattr(n, "lineno", 0)) for n in ast.walk(fn) if isinstance(n, ast.Attribute) and isinstance(n.ctx, (ast.Store, ast.Del))]
        wholesale = [getattr(n, "lineno", 0) for n in ast.walk(fn)
                     if isinstance(n, ast.Call) and ((isinstance(n.func, ast.Attribute) and n.func.attr in ("set_params", "__setattr__", "update") and
                                                      ast.unparse(n.func.value) in ("self", "self.__dict__", "vars(self)"))
                                                     or (isinstance(n.func, ast.Name) and n.func.id in ("setattr", "delattr")))]
        loops = [(l.lineno, getattr(l, "end_lineno", l.lineno)) for l in ast.walk(fn) if isinstance(l, (ast.For, ast.While))]

        def snapshot(d):
            e, at = d.value, getattr(d, "lineno", 0)
            lo = min([a for a, b in loops if a <= at <= b] + [at])        # inside a loop: anything in the loop may run before the next definition's uses
            attrs = {n.attr for n in ast.walk(e) if isinstance(n, ast.Attribute)}
            if any(a_ in attrs and (ln > at or ln >= lo) and not (ln == at) for a_, ln in attr_stores):
                return True
            reads_self = any(isinstance(n, ast.Attribute) and isinstance(n.value, ast.Name) and n.value.id == "self" for n in ast.walk(e))
            return reads_self and any(ln > at or (ln >= lo and ln != at) for ln in wholesale)
        subst = {nm: d.value for nm, d in defs.items() if counts.get(nm) == 1 and nm not in params and _pure(d.value) and stable(d.value) and not snapshot(d)}
        # module-level constants that the function does not shadow
        for nm, v in self.consts.items():
            if nm not in counts and nm not in subst:
                subst[nm] = v
        if not subst:
            return fn

        def resolve(e, depth=0):
            if depth > 8:
                return e

            class R(ast.NodeTransformer):
                def visit_Name(self, n):
                    if isinstance(n.ctx, ast.Load) and n.id in subst:
                        return resolve(copy.deepcopy(subst[n.id]), depth + 1)
                    return n

                def _comp(self, n):
                    bound = {x.id for g in n.generators for x in ast.walk(g.target) if isinstance(x, ast.Name)}
                    if bound & set(subst):
                        return n
                    return self.generic_visit(n)
                visit_ListComp = visit_SetComp = visit_GeneratorExp = visit_DictComp = _comp
            return R().visit(e)
        dead = {id(defs[nm]) for nm in subst if nm in defs}

        class Drop(ast.NodeTransformer):
            def visit_Assign(self, n):
                if id(n) in dead:
                    return None
                return resolve(n)

            def generic_visit(self, n):
                if isinstance(n, ast.stmt) and not isinstance(n, (ast.FunctionDef, ast.ClassDef)):
                    pass
                return super().generic_visit(n)
        out = copy.copy(fn)
        out.body = []
        for s in fn.body:
            r = self._alias_stmt(s, dead, resolve)
            out.body.extend(r)
        return out

    def _alias_stmt(self, s, dead, resolve):
        if id(s) in dead:
            return []
        s = copy.copy(s)
        for fld in ("body", "orelse", "finalbody"):
            if hasattr(s, fld) and isinstance(getattr(s, fld), list) and not isinstance(s, (ast.FunctionDef, ast.ClassDef)):
                nb = []
                for x in getattr(s, fld):
                    nb.extend(self._alias_stmt(x, dead, resolve))
                if fld == "body" and not nb:
                    nb = [ast.Pass()]
                setattr(s, fld, nb)
        if isinstance(s, ast.Try):
            hs = []
            for hd in s.handlers:
                hd = copy.copy(hd)
                nb = []
                for x in hd.body:
                    nb.extend(self._alias_stmt(x, dead, resolve))
                hd.body = nb or [ast.Pass()]
                hs.append(hd)
            s.handlers = hs
        # expressions directly on this statement
        for fld, v in list(ast.iter_fields(s)):
            if isinstance(v, ast.expr):
                setattr(s, fld, resolve(copy.deepcopy(v)))
            elif isinstance(v, list) and v and all(isinstance(x, ast.expr) for x in v):
                setattr(s, fld, [resolve(copy.deepcopy(x)) for x in v])
        return [s]

    # ---------------------------------------------------------------- BETA (a local bound once to a lambda, called)
    @staticmethod
    def beta(body: List[ast.stmt], params=()) -> List[ast.stmt]:
        """`f = lambda a: E` bound exactly once, every use a call `f(x)` with simple arguments, nothing that E captures is rebound:
        the calls are replaced by E[a := x] and the binding is dropped (how a parameterised helper's callable arguments look after INLINE)"""
        mod = ast.Module(body=body, type_ignores=[])
        stores: Dict[str, int] = {p_: 1 for p_ in params}
        lam: Dict[str, ast.Lambda] = {}
        for n in ast.walk(mod):
            if isinstance(n, ast.Name) and isinstance(n.ctx, (ast.Store, ast.Del)):
                stores[n.id] = stores.get(n.id, 0) + 1
            elif isinstance(n, ast.arg):
                stores[n.arg] = stores.get(n.arg, 0) + 1
            elif isinstance(n, (ast.Global, ast.Nonlocal)):
                for g_ in n.names:
                    stores[g_] = stores.get(g_, 0) + 2
        for n in ast.walk(mod):
            if isinstance(n, ast.Assign) and len(n.targets) == 1 and isinstance(n.targets[0], ast.Name) and isinstance(n.value, ast.Lambda) \
                    and stores.get(n.targets[0].id) == 1:
                a = n.value.args
                if a.vararg or a.kwarg or a.kwonlyargs or a.defaults or a.posonlyargs:
                    continue
                own = {x.arg for x in a.args}
                caps = {x.id for x in ast.walk(n.value.body) if isinstance(x, ast.Name) and x.id not in own}
                if any(stores.get(c_, 0) > 1 for c_ in caps):
                    continue
                lam[n.targets[0].id] = n.value

        def simple(e):
            return all(isinstance(x, (ast.Name, ast.Constant, ast.Attribute, ast.Tuple, ast.expr_context)) for x in ast.walk(e))

        def stable(e):
            # side-effect free and built from names that are bound at most once in this body (parameters count as one binding)
            return simple(e) and all(stores.get(x.id, 0) <= 1 for x in ast.walk(e) if isinstance(x, ast.Name))

        def plain_lambda(L):
            a = L.args
            if a.vararg or a.kwarg or a.kwonlyargs or a.defaults or a.posonlyargs:
                return False
            own = {x.arg for x in a.args}
            return all(stores.get(x.id, 0) <= 1 for x in ast.walk(L.body) if isinstance(x, ast.Name) and x.id not in own)
        part: Dict[str, ast.Call] = {}          # f = partial(g, *simple, **simple)
        choice: Dict[str, ast.IfExp] = {}       # f = A if c else B   (A, B names of callables or plain lambdas; c stable)
        for n in ast.walk(mod):
            if not (isinstance(n, ast.Assign) and len(n.targets) == 1 and isinstance(n.targets[0], ast.Name) and stores.get(n.targets[0].id) == 1):
                continue
            v = n.value
            if isinstance(v, ast.Call) and ast.unparse(v.func) in ("partial", "functools.partial") and v.args and isinstance(v.args[0], (ast.Name, ast.Attribute)) \
                    and not any(isinstance(a_, ast.Starred) for a_ in v.args) and all(k.arg is not None for k in v.keywords) \
                    and all(stable(a_) for a_ in v.args) and all(stable(k.value) for k in v.keywords):
                part[n.targets[0].id] = v
            elif isinstance(v, ast.IfExp) and stable(v.test) and all((isinstance(x, ast.Name) and stores.get(x.id, 0) <= 1) or (isinstance(x, ast.Lambda) and plain_lambda(x))
                                                                     for x in (v.body, v.orelse)):
                choice[n.targets[0].id] = v
        if not lam and not part and not choice:
            return body
        lam_only = dict(lam)
        for k in list(part) + list(choice):
            lam.setdefault(k, None)
        uses = {k: 0 for k in lam}
        reduced = {k: 0 for k in lam}
        for n in ast.walk(mod):
            if isinstance(n, ast.Name) and isinstance(n.ctx, ast.Load) and n.id in lam:
                uses[n.id] += 1

        class B(ast.NodeTransformer):
            def visit_Call(self, c):
                self.generic_visit(c)
                if isinstance(c.func, ast.Name) and c.func.id in part and not any(isinstance(a_, ast.Starred) for a_ in c.args) \
                        and all(k.arg is not None for k in c.keywords):
                    P = part[c.func.id]
                    given = {k.arg for k in c.keywords}
                    reduced[c.func.id] += 1
                    return ast.copy_location(ast.Call(copy.deepcopy(P.args[0]), [copy.deepcopy(a_) for a_ in P.args[1:]] + list(c.args),
                                                      [copy.deepcopy(k) for k in P.keywords if k.arg not in given] + list(c.keywords)), c)
                if isinstance(c.func, ast.Name) and c.func.id in choice and not c.keywords and all(simple(a_) and not isinstance(a_, ast.Starred) for a_ in c.args):
                    I = choice[c.func.id]

                    def app(f_):
                        if isinstance(f_, ast.Lambda):
                            ps_ = [x.arg for x in f_.args.args]
                            if len(ps_) != len(c.args):
                                return None
                            sub_ = dict(zip(ps_, c.args))

                            class S_(ast.NodeTransformer):
                                def visit_Name(self, n):
                                    return copy.deepcopy(sub_[n.id]) if isinstance(n.ctx, ast.Load) and n.id in sub_ else n

                                def visit_Lambda(self, n):
                                    return n
                            return S_().visit(copy.deepcopy(f_.body))
                        return ast.Call(copy.deepcopy(f_), [copy.deepcopy(a_) for a_ in c.args], [])
                    a1, a2 = app(I.body), app(I.orelse)
                    if a1 is None or a2 is None:
                        return c
                    reduced[c.func.id] += 1
                    return ast.copy_location(ast.IfExp(copy.deepcopy(I.test), a1, a2), c)
                if isinstance(c.func, ast.Name) and lam.get(c.func.id) is not None and not c.keywords and all(simple(a_) and not isinstance(a_, ast.Starred) for a_ in c.args):
                    L = lam[c.func.id]
                    ps = [x.arg for x in L.args.args]
                    if len(ps) != len(c.args):
                        return c
                    sub = dict(zip(ps, c.args))

                    class S(ast.NodeTransformer):
                        def visit_Name(self, n):
                            return copy.deepcopy(sub[n.id]) if isinstance(n.ctx, ast.Load) and n.id in sub else n

                        def visit_Lambda(self, n):
                            return n
                    reduced[c.func.id] += 1
                    return ast.copy_location(S().visit(copy.deepcopy(L.body)), c)
                return c
        new = [B().visit(st) for st in body]
        drop = {k for k in lam if uses[k] == reduced[k]}

        def prune(stmts):
            out = []
            for st in stmts:
                if isinstance(st, ast.Assign) and len(st.targets) == 1 and isinstance(st.targets[0], ast.Name) and st.targets[0].id in drop \
                        and (isinstance(st.value, ast.Lambda) or st.value is part.get(st.targets[0].id) or st.value is choice.get(st.targets[0].id)):
                    continue
                for fld in ("body", "orelse", "finalbody"):
                    v = getattr(st, fld, None)
                    if isinstance(v, list) and v and all(isinstance(x, ast.stmt) for x in v):
                        setattr(st, fld, prune(v) or [ast.Pass()])
                out.append(st)
            return out
        return prune(new)

    # ---------------------------------------------------------------- NTUNPACK (a namedtuple value used only through its fields)
    def nt_unpack(self, body: List[ast.stmt]) -> List[ast.stmt]:
        """`v = E` bound once, every read of `v` either `v.<field>` of one module-level namedtuple NT or the right-hand side of a tuple unpacking of
        NT's arity:  `v = E` becomes `v__f0, v__f1 = E` (a namedtuple unpacks like a tuple) and the reads use those names"""
        if not self.namedtuples:
            return body
        mod = ast.Module(body=body, type_ignores=[])
        stores: Dict[str, List[ast.Assign]] = {}
        nstores: Dict[str, int] = {}
        for n in ast.walk(mod):
            if isinstance(n, ast.Name) and isinstance(n.ctx, (ast.Store, ast.Del)):
                nstores[n.id] = nstores.get(n.id, 0) + 1
            elif isinstance(n, ast.arg):
                nstores[n.arg] = nstores.get(n.arg, 0) + 1
            if isinstance(n, ast.Assign) and len(n.targets) == 1 and isinstance(n.targets[0], ast.Name):
                stores.setdefault(n.targets[0].id, []).append(n)
        parents = {}
        for n in ast.walk(mod):
            for ch in ast.iter_child_nodes(n):
                parents[id(ch)] = n
        plan = {}
        for v, defs in stores.items():
            if nstores.get(v) != len(defs):
                continue            # some binding of v is not a plain `v = E`
            loads = [n for n in ast.walk(mod) if isinstance(n, ast.Name) and n.id == v and isinstance(n.ctx, ast.Load)]
            if not loads:
                continue
            attrs, unpacks, ok = set(), [], True
            for ld in loads:
                par = parents.get(id(ld))
                if isinstance(par, ast.Attribute) and par.value is ld and isinstance(par.ctx, ast.Load):
                    attrs.add(par.attr)
                elif isinstance(par, ast.Assign) and par.value is ld and len(par.targets) == 1 and isinstance(par.targets[0], (ast.Tuple, ast.List)) \
                        and not any(isinstance(e, ast.Starred) for e in par.targets[0].elts):
                    unpacks.append(par)
                else:
                    ok = False
                    break
            if not ok or not attrs:
                continue
            cands = [(nm, f) for nm, f in self.namedtuples.items() if attrs <= set(f) and all(len(u.targets[0].elts) == len(f) for u in unpacks)]
            if len({f for _, f in cands}) != 1:
                continue
            plan[v] = (cands[0][1], defs)
        if not plan:
            return body

        class R(ast.NodeTransformer):
            def visit_Attribute(self_, n):
                if isinstance(n.value, ast.Name) and n.value.id in plan and isinstance(n.ctx, ast.Load) and n.attr in plan[n.value.id][0]:
                    return ast.copy_location(ast.Name(f"{n.value.id}__{n.attr}", ast.Load()), n)
                return self_.generic_visit(n)

            def visit_Assign(self_, n):
                if len(n.targets) == 1 and isinstance(n.targets[0], ast.Name) and n.targets[0].id in plan and any(n is d_ for d_ in plan[n.targets[0].id][1]):
                    v = n.targets[0].id
                    n.value = self_.visit(n.value)
                    n.targets = [ast.Tuple([ast.Name(f"{v}__{f}", ast.Store()) for f in plan[v][0]], ast.Store())]
                    return n
                if isinstance(n.value, ast.Name) and n.value.id in plan and len(n.targets) == 1 and isinstance(n.targets[0], (ast.Tuple, ast.List)):
                    v = n.value.id
                    n.value = ast.Tuple([ast.Name(f"{v}__{f}", ast.Load()) for f in plan[v][0]], ast.Load())
                    return n
                return self_.generic_visit(n)
        for v in plan:
            self.caller_names |= {f"{v}__{f}" for f in plan[v][0]}
        return [ast.fix_missing_locations(R().visit(st)) for st in body]

    # ---------------------------------------------------------------- ATTRFWD (store-to-load forwarding of self attributes, straight-line)
    @staticmethod
    def attr_forward(body: List[ast.stmt]) -> List[ast.stmt]:
        """top-level `self.a = v` (v a plain name that is not rebound afterwards) followed by reads of `self.a`: the reads become `v` as long as
        nothing in between can write the attribute (an assignment to it, or a call on / with `self` that was not inlined)"""
        mod = ast.Module(body=body, type_ignores=[])
        stores: Dict[str, int] = {}
        for n in ast.walk(mod):
            if isinstance(n, ast.Name) and isinstance(n.ctx, (ast.Store, ast.Del)):
                stores[n.id] = stores.get(n.id, 0) + 1
            elif isinstance(n, ast.arg):
                stores[n.arg] = stores.get(n.arg, 0) + 1
        known: Dict[str, str] = {}

        def invalidates(st):
            bad = set()
            for n in ast.walk(st):
                if isinstance(n, ast.Attribute) and isinstance(n.ctx, (ast.Store, ast.Del)) and isinstance(n.value, ast.Name) and n.value.id == "self":
                    bad.add(n.attr)
                if isinstance(n, ast.Call):
                    f = n.func
                    on_self = isinstance(f, ast.Attribute) and isinstance(f.value, ast.Name) and f.value.id == "self"
                    sup = isinstance(f, ast.Attribute) and isinstance(f.value, ast.Call) and isinstance(f.value.func, ast.Name) and f.value.func.id == "super"
                    with_self = any(isinstance(a_, ast.Name) and a_.id == "self" for a_ in list(n.args) + [k.value for k in n.keywords])
                    if on_self or sup or with_self or (isinstance(f, ast.Name) and f.id in ("setattr", "delattr", "vars")):
                        bad.add("*")
            return bad
        out = []
        for st in body:
            if known:
                class F(ast.NodeTransformer):
                    def visit_Attribute(self_, n):
                        self_.generic_visit(n)
                        if isinstance(n.ctx, ast.Load) and isinstance(n.value, ast.Name) and n.value.id == "self" and n.attr in known:
                            return ast.copy_location(ast.Name(known[n.attr], ast.Load()), n)
                        return n
                bad = invalidates(st)
                # within a compound statement the substitution is only made when the statement itself cannot write the attributes
                if not bad or not isinstance(st, (ast.For, ast.While, ast.If, ast.With, ast.Try)):
                    if isinstance(st, ast.Assign):
                        st.value = F().visit(st.value)       # the right-hand side is evaluated before this statement's own store
                    elif not bad:
                        st = F().visit(st)
                if "*" in bad:
                    known.clear()
                else:
                    for a_ in bad:
                        known.pop(a_, None)
            if isinstance(st, ast.Assign) and len(st.targets) == 1 and isinstance(st.targets[0], ast.Attribute) and isinstance(st.targets[0].value, ast.Name) \
                    and st.targets[0].value.id == "self" and isinstance(st.value, ast.Name) and stores.get(st.value.id, 0) <= 1:
                known[st.targets[0].attr] = st.value.id
            out.append(st)
        return out

    # ---------------------------------------------------------------- driver
    def expand_in_tests(self, fn: ast.FunctionDef) -> ast.FunctionDef:
        """EXPR-INLINE in conditions: a resolvable helper whose body is one `return E`, called inside an if / while test with simple arguments,
        is E with the parameters replaced (statement-level calls are handled by INLINE / HOIST)"""
        if self.resolve_call is None:
            return fn
        nz = self

        def simple(e):
            return all(isinstance(x, (ast.Name, ast.Constant, ast.Attribute, ast.expr_context)) for x in ast.walk(e))

        class T(ast.NodeTransformer):
            def visit_Call(self, c):
                self.generic_visit(c)
                h = nz.resolve_call(c)
                if h is None or h.args.vararg or h.args.kwarg:
                    return c
                body = [b for b in h.body if not (isinstance(b, ast.Expr) and isinstance(b.value, ast.Constant))]
                if len(body) != 1 or not isinstance(body[0], ast.Return) or body[0].value is None:
                    return c
                pos = [a.arg for a in h.args.posonlyargs + h.args.args]
                keep = {}
                rcv = nz._receiver(c, h)
                deco = {ast.unparse(d) for d in h.decorator_list}
                if rcv is not None and pos:
                    keep[pos[0]] = rcv
                    pos = pos[1:]
                if any(isinstance(a, ast.Starred) for a in c.args) or any(k.arg is None for k in c.keywords) or len(c.args) > len(pos):
                    return c
                params = pos + [a.arg for a in h.args.kwonlyargs]
                bound = dict(zip(pos, c.args))
                for k in c.keywords:
                    if k.arg not in params or k.arg in bound:
                        return c
                    bound[k.arg] = k.value
                if set(params) - set(bound) or not all(simple(v) for v in bound.values()):
                    return c
                E = body[0].value
                inner = {x.id for x in ast.walk(E) if isinstance(x, ast.Name) and isinstance(x.ctx, ast.Store)}
                if inner & ({x.id for v in bound.values() for x in ast.walk(v) if isinstance(x, ast.Name)} | set(keep.values())):
                    return c

                class S(ast.NodeTransformer):
                    def visit_Name(self, n):
                        if isinstance(n.ctx, ast.Load) and n.id in bound and n.id not in inner:
                            return copy.deepcopy(bound[n.id])
                        if n.id in keep:
                            return ast.copy_location(ast.Name(keep[n.id], n.ctx), n)
                        return n
                nz.inlined.append(h.name)
                return ast.copy_location(S().visit(copy.deepcopy(E)), c)
        for n in ast.walk(fn):
            if isinstance(n, (ast.If, ast.While)):
                n.test = T().visit(n.test)
        ast.fix_missing_locations(fn)
        return fn

    def function(self, fn: ast.FunctionDef) -> ast.FunctionDef:
        out = copy.deepcopy(fn)
        out.body = strip_logging(out.body)
        unprecompute_dicts(out)                   # PRECOMP-DICT
        out = self.expand_in_tests(out)
        self.caller_names = {n.id for n in ast.walk(fn) if isinstance(n, ast.Name)} | {a.arg for a in ast.walk(fn) if isinstance(a, ast.arg)}
        body = [s for s in out.body if not (isinstance(s, ast.Expr) and isinstance(s.value, ast.Constant) and isinstance(s.value.value, str))]
        body = unzip_map(unproduct(body))
        saved_res = self.resolve_call
        self.resolve_call, local_defs = with_local_defs(out, self.resolve_call)
        body = self.inline_block(body)
        self.resolve_call = saved_res
        body = tuple_scalarise(drop_unused_defs(body, local_defs))
        body = prefix_zip(body)
        body = copy_propagate(split_assign(body))
        body = self.beta(body)
        body = self.attr_forward(body)
        if self.namedtuples:
            body = split_assign(body, self.namedtuples)
            body = split_assign(self.nt_unpack(body), self.namedtuples)
            body = coalesce_copies(body)
        out.body = self.block(body)
        out.body = self.version_block(out.body)
        out = self.alias(out)
        out.body = self.block(out.body)
        fused = table_fuse(out.body)
        if fused is not out.body:
            # a record table built ahead of its only reader: the records are now built where they are read; unpack and settle again
            b = fused
            if self.namedtuples:
                b = split_assign(self.nt_unpack(split_assign(b, self.namedtuples)), self.namedtuples)
            out.body = copy_propagate(split_assign(b))
            out = self.alias(out)
            out.body = self.block(out.body)
        ast.fix_missing_locations(out)
        return out


def inline_only(fn: ast.FunctionDef, resolve_call) -> ast.FunctionDef:
    """INLINE + FUSE only (for analyses that do their own control-flow reasoning)"""
    out = copy.deepcopy(fn)
    resolve_call, local_defs = with_local_defs(out, resolve_call)
    nz = Normaliser(resolve_call)
    nz.caller_names = {n.id for n in ast.walk(fn) if isinstance(n, ast.Name)} | {a.arg for a in ast.walk(fn) if isinstance(a, ast.arg)}
    out.body = nz.inline_block([s for s in out.body if not (isinstance(s, ast.Expr) and isinstance(s.value, ast.Constant) and isinstance(s.value.value, str))])
    out.body = tuple_scalarise(drop_unused_defs(out.body, local_defs))
    ast.fix_missing_locations(out)
    out._inlined = list(nz.inlined)
    return out


SIBLINGS: Dict[str, ast.Module] = {}        # module name -> tree of the repo's other modules (filled by core.Ctx.parse): targets of `from formak.X import f`


def class_attr_constants(cls: ast.ClassDef, mod: Optional[ast.Module] = None) -> Dict[str, ast.expr]:
    """class-body `X = <call-free expression or len(..)>` that no method of the class (or of its module-level bases) re-binds through self / cls:
    `self.X` / `cls.X` read in a method IS that expression (CLASS-ATTR)"""
    classes = {c.name: c for c in (mod.body if mod is not None else []) if isinstance(c, ast.ClassDef)}
    chain, todo = [], [cls]
    while todo:
        c = todo.pop()
        if c in chain:
            continue
        chain.append(c)
        for b in c.bases:
            bn = ast.unparse(b).split(".")[-1]
            if bn in classes:
                todo.append(classes[bn])
    stored = set()
    for c in chain:
        for n in ast.walk(c):
            if isinstance(n, ast.Attribute) and isinstance(n.ctx, (ast.Store, ast.Del)) and isinstance(n.value, ast.Name) and n.value.id in ("self", "cls"):
                stored.add(n.attr)
            if isinstance(n, ast.Call) and isinstance(n.func, ast.Name) and n.func.id in ("setattr", "delattr"):
                return {}
    out = {}
    # annotated class attributes of a dataclass / NamedTuple / attrs class are per-instance fields, not class constants
    fieldy = any(any(t in ast.unparse(d) for t in ("dataclass", "attr.s", "attrs", "define")) for c in chain for d in c.decorator_list) or \
        any(ast.unparse(b).split(".")[-1] in ("NamedTuple", "BaseModel", "TypedDict") for c in chain for b in c.bases)
    for st in cls.body:
        if isinstance(st, ast.AnnAssign) and isinstance(st.target, ast.Name) and st.value is not None and not fieldy:
            st = ast.Assign([st.target], st.value)
        if isinstance(st, ast.Assign) and len(st.targets) == 1 and isinstance(st.targets[0], ast.Name) and st.targets[0].id not in stored:
            v = st.value
            if not any(isinstance(x, ast.Call) and not (isinstance(x.func, ast.Name) and x.func.id == "len") for x in ast.walk(v)) \
                    and not any(isinstance(x, (ast.Lambda, ast.ListComp, ast.DictComp, ast.SetComp, ast.GeneratorExp, ast.Dict, ast.List, ast.Set)) for x in ast.walk(v)):
                out[st.targets[0].id] = v
    return out


def subst_class_attrs(fn: ast.FunctionDef, consts: Dict[str, ast.expr]) -> ast.FunctionDef:
    if not consts:
        return fn
    shadow = {a.arg for a in ast.walk(fn.args) if isinstance(a, ast.arg)} | {n.id for n in ast.walk(fn) if isinstance(n, ast.Name) and isinstance(n.ctx, ast.Store)}

    class T(ast.NodeTransformer):
        def visit_Attribute(self, n):
            self.generic_visit(n)
            if isinstance(n.ctx, ast.Load) and isinstance(n.value, ast.Name) and n.value.id in ("self", "cls") and n.attr in consts \
                    and not ({x.id for x in ast.walk(consts[n.attr]) if isinstance(x, ast.Name)} & shadow):
                return ast.copy_location(copy.deepcopy(consts[n.attr]), n)
            return n
    out = T().visit(copy.deepcopy(fn))
    ast.fix_missing_locations(out)
    return out


def property_exprs(cls: ast.ClassDef) -> Dict[str, ast.expr]:
    """read-only properties of the class whose getter is one `return E` (E call-free): `self.p` is E (PROPERTY)"""
    out = {}
    setters = {ast.unparse(d).split(".")[0] for m in cls.body if isinstance(m, ast.FunctionDef) for d in m.decorator_list if ast.unparse(d).endswith(".setter")}
    for m in cls.body:
        if isinstance(m, ast.FunctionDef) and any(ast.unparse(d) in ("property", "functools.cached_property", "cached_property") for d in m.decorator_list) \
                and m.name not in setters and len(m.args.args) == 1:
            body = [b for b in m.body if not (isinstance(b, ast.Expr) and isinstance(b.value, ast.Constant))]
            if len(body) == 1 and isinstance(body[0], ast.Return) and body[0].value is not None \
                    and not any(isinstance(x, (ast.Call, ast.Lambda, ast.Await, ast.Yield)) for x in ast.walk(body[0].value)):
                sp = m.args.args[0].arg

                class S(ast.NodeTransformer):
                    def visit_Name(self, n):
                        return ast.copy_location(ast.Name("self", n.ctx), n) if n.id == sp else n
                out[m.name] = S().visit(copy.deepcopy(body[0].value))
    return out


def rw_properties(cls: ast.ClassDef, constructors=()) -> Dict[str, Tuple[ast.expr, Optional[ast.expr]]]:
    """properties of the class whose getter is one `return E` (E built from attribute reads and calls of the given pure constructors) and whose
    setter, if any, is one assignment `TARGET = <the value>`:  name -> (E, TARGET or None).  Reading `self.name` is E; `self.name = v` is
    `TARGET = v` (PROPERTY-RW)."""
    getters, setters = {}, {}
    for m in cls.body:
        if not isinstance(m, ast.FunctionDef):
            continue
        decos = [ast.unparse(d) for d in m.decorator_list]
        body = [b for b in m.body if not (isinstance(b, ast.Expr) and isinstance(b.value, ast.Constant))]
        if "property" in decos and len(m.args.args) == 1 and len(body) == 1 and isinstance(body[0], ast.Return) and body[0].value is not None:
            E = body[0].value
            if all(isinstance(x.func, ast.Name) and x.func.id in constructors for x in ast.walk(E) if isinstance(x, ast.Call)) \
                    and not any(isinstance(x, (ast.Lambda, ast.Await, ast.Yield)) for x in ast.walk(E)):
                sp = m.args.args[0].arg
                getters[m.name] = _rename(E, {sp: "self"})
        elif any(d == f"{m.name}.setter" for d in decos) and len(m.args.args) == 2 and len(body) == 1 and isinstance(body[0], ast.Assign) \
                and len(body[0].targets) == 1 and isinstance(body[0].value, ast.Name) and body[0].value.id == m.args.args[1].arg:
            setters[m.name] = _rename(body[0].targets[0], {m.args.args[0].arg: "self"})
        elif any(d == f"{m.name}.setter" for d in decos):
            setters[m.name] = "opaque"
    out = {}
    for k, g in getters.items():
        if setters.get(k) == "opaque":
            continue
        out[k] = (g, setters.get(k))
    return out


def _rename(node, m):
    class S(ast.NodeTransformer):
        def visit_Name(self, n):
            return ast.copy_location(ast.Name(m[n.id], n.ctx), n) if n.id in m else n
    return S().visit(copy.deepcopy(node))


def subst_rw_properties(fn: ast.FunctionDef, table) -> ast.FunctionDef:
    if not table:
        return fn

    class T(ast.NodeTransformer):
        def visit_Attribute(self, n):
            self.generic_visit(n)
            if isinstance(n.value, ast.Name) and n.value.id == "self" and n.attr in table:
                g, st = table[n.attr]
                if isinstance(n.ctx, ast.Load):
                    return ast.copy_location(copy.deepcopy(g), n)
                if isinstance(n.ctx, ast.Store) and st is not None:
                    return ast.copy_location(copy.deepcopy(st), n)
            return n
    out = T().visit(copy.deepcopy(fn))
    ast.fix_missing_locations(out)
    return out


def subst_properties(node: ast.AST, props: Dict[str, ast.expr], depth=0) -> ast.AST:
    if not props or depth > 4:
        return node

    class T(ast.NodeTransformer):
        hit = False

        def visit_Attribute(self, n):
            self.generic_visit(n)
            if isinstance(n.ctx, ast.Load) and isinstance(n.value, ast.Name) and n.value.id == "self" and n.attr in props:
                T.hit = True
                return ast.copy_location(copy.deepcopy(props[n.attr]), n)
            return n
    out = T().visit(copy.deepcopy(node))
    ast.fix_missing_locations(out)
    return subst_properties(out, props, depth + 1) if T.hit else out


def expand_sibling_calls(node: ast.AST, mod: ast.Module):
    """EXPR-INLINE of helpers that live in a sibling module of the package: `common.f(a, k=b)` (or `f(..)` after `from formak.common import f`) whose
    body is one `return E` becomes E[params := args] when every argument is a name / attribute chain / constant (evaluating it where the
    parameter stood is the same computation).  In place; returns {sibling module name: {helper names used}} for the callers' trust checks."""
    alias, direct = {}, {}
    for n in mod.body:
        if isinstance(n, ast.ImportFrom) and n.module and n.module.split(".")[0] == "formak":
            parts = n.module.split(".")
            for a in n.names:
                local = a.asname or a.name
                if len(parts) == 1 and a.name in SIBLINGS:
                    alias[local] = a.name
                elif len(parts) > 1 and parts[-1] in SIBLINGS:
                    direct[local] = (parts[-1], a.name)
        elif isinstance(n, ast.Import):
            for a in n.names:
                parts = a.name.split(".")
                if parts[0] == "formak" and len(parts) == 2 and parts[1] in SIBLINGS and a.asname:
                    alias[a.asname] = parts[1]
    local_defs = {f.name for f in mod.body if isinstance(f, (ast.FunctionDef, ast.ClassDef))}
    used: Dict[str, set] = {}

    def lookup(f):
        if isinstance(f, ast.Attribute) and isinstance(f.value, ast.Name) and f.value.id in alias:
            m, name = alias[f.value.id], f.attr
        elif isinstance(f, ast.Name) and f.id in direct and f.id not in local_defs:
            m, name = direct[f.id]
        else:
            return None
        h = next((x for x in SIBLINGS[m].body if isinstance(x, ast.FunctionDef) and x.name == name), None)
        if h is None or h.decorator_list or h.args.vararg or h.args.kwarg:
            return None
        body = [b for b in h.body if not (isinstance(b, ast.Expr) and isinstance(b.value, ast.Constant))]
        if len(body) != 1 or not isinstance(body[0], ast.Return) or body[0].value is None:
            return None
        return m, h, body[0].value

    def simple(e):
        return all(isinstance(x, (ast.Name, ast.Constant, ast.Attribute, ast.expr_context)) for x in ast.walk(e))

    class T(ast.NodeTransformer):
        def visit_Call(self, c):
            self.generic_visit(c)
            hit = lookup(c.func)
            if hit is None:
                return c
            m, h, E = hit
            pos = [a.arg for a in h.args.posonlyargs + h.args.args]
            params = pos + [a.arg for a in h.args.kwonlyargs]
            if any(isinstance(a, ast.Starred) for a in c.args) or any(k.arg is None for k in c.keywords) or len(c.args) > len(pos):
                return c
            bound = dict(zip(pos, c.args))
            for k in c.keywords:
                if k.arg not in params or k.arg in bound:
                    return c
                bound[k.arg] = k.value
            defaults = dict(zip(pos[len(pos) - len(h.args.defaults):], h.args.defaults)) if h.args.defaults else {}
            defaults.update({a.arg: d for a, d in zip(h.args.kwonlyargs, h.args.kw_defaults) if d is not None})
            for p_ in params:
                if p_ not in bound:
                    if p_ not in defaults:
                        return c
                    bound[p_] = defaults[p_]
            if not all(simple(v) for v in bound.values()):
                return c
            # names the helper binds itself (comprehension / lambda variables) must not capture an argument's names
            inner = {x.id for x in ast.walk(E) if isinstance(x, ast.Name) and isinstance(x.ctx, ast.Store)} | {a.arg for a in ast.walk(E) if isinstance(a, ast.arg)}
            if inner & {x.id for v in bound.values() for x in ast.walk(v) if isinstance(x, ast.Name)}:
                return c

            class S(ast.NodeTransformer):
                def visit_Name(self, n):
                    return copy.deepcopy(bound[n.id]) if isinstance(n.ctx, ast.Load) and n.id in bound and n.id not in inner else n
            used.setdefault(m, set()).add(h.name)
            return ast.copy_location(S().visit(copy.deepcopy(E)), c)
    T().visit(node)
    ast.fix_missing_locations(node)
    return used


def class_resolver(mod: ast.Module, cls: Optional[ast.ClassDef] = None, exclude=(), module_funcs=True):
    """resolve self.m(...) / cls.m(...) in `cls` (and module-level base classes) and f(...) to module-level functions (its own, or one imported by
    name from a sibling module of the package; `common.f(...)` for a sibling imported as a module)"""
    classes = {c.name: c for c in mod.body if isinstance(c, ast.ClassDef)}
    funcs = {f.name: f for f in mod.body if isinstance(f, ast.FunctionDef)}
    mod_alias = {}
    for n in mod.body:
        if isinstance(n, ast.ImportFrom) and n.module and n.module.split(".")[0] == "formak":
            parts = n.module.split(".")
            for a in n.names:
                local = a.asname or a.name
                if len(parts) == 1:
                    if a.name in SIBLINGS:
                        mod_alias[local] = a.name
                elif parts[-1] in SIBLINGS:
                    for f in SIBLINGS[parts[-1]].body:
                        if isinstance(f, ast.FunctionDef) and f.name == a.name and local not in funcs:
                            funcs[local] = f

    def methods(c, seen=()):
        out = {}
        if c is None or c.name in seen:
            return out
        for b in c.bases:
            bn = ast.unparse(b).split(".")[-1]
            if bn in classes:
                out.update(methods(classes[bn], seen + (c.name,)))
        out.update({m.name: m for m in c.body if isinstance(m, ast.FunctionDef)})
        return out
    ms = methods(cls)
    base_ms = {}
    if cls is not None:
        for b in cls.bases:
            bn = ast.unparse(b).split(".")[-1]
            if bn in classes:
                base_ms.update(methods(classes[bn], (cls.name,)))

    def resolve(call: ast.Call):
        f = call.func
        if isinstance(f, ast.Attribute) and isinstance(f.value, ast.Name) and f.value.id not in ("self", "cls") and f.value.id not in mod_alias:
            # `ClassName.method(...)` (class / static method of a module-level class) or `obj.method()` where obj was built by `ClassName(...)`
            cn = f.value.id if f.value.id in classes else resolve.local_types.get(f.value.id)
            if cn in classes and f.attr not in exclude and (cls is None or cn != cls.name):
                m_ = methods(classes[cn]).get(f.attr)
                if m_ is not None:
                    deco_ = {ast.unparse(d) for d in m_.decorator_list}
                    if f.value.id in classes and not (deco_ & {"classmethod", "staticmethod"}):
                        return None
                    if "property" in deco_:
                        return None
                    return m_
            return None
        if isinstance(f, ast.Attribute) and isinstance(f.value, ast.Call) and isinstance(f.value.func, ast.Name) and f.value.func.id == "super" \
                and not f.value.args and not f.value.keywords:
            return None if f.attr in exclude else base_ms.get(f.attr)
        if isinstance(f, ast.Attribute) and isinstance(f.value, ast.Name) and f.value.id in ("self", "cls"):
            return None if f.attr in exclude else ms.get(f.attr)
        if isinstance(f, ast.Attribute) and isinstance(f.value, ast.Name) and f.value.id in mod_alias and module_funcs and f.attr not in exclude \
                and f.value.id not in classes:
            h = next((x for x in SIBLINGS[mod_alias[f.value.id]].body if isinstance(x, ast.FunctionDef) and x.name == f.attr), None)
            if h is not None and module_funcs == "small":
                body = [s_ for s_ in h.body if not (isinstance(s_, ast.Expr) and isinstance(s_.value, ast.Constant))]
                if not (len(body) == 1 and isinstance(body[0], ast.Return)):
                    return None
            if h is not None and h.name not in ("named_vector", "named_covariance", "model_validation"):
                return h
            return None
        if isinstance(f, ast.Name) and module_funcs:
            h = None if f.id in exclude else funcs.get(f.id)
            if h is not None and module_funcs == "small":
                # only one-expression wrappers (`def _sorted_by_name(xs): return sorted(xs, key=...)`)
                body = [s_ for s_ in h.body if not (isinstance(s_, ast.Expr) and isinstance(s_.value, ast.Constant))]
                if not (len(body) == 1 and isinstance(body[0], ast.Return)):
                    return None
            return h
        return None
    resolve.local_types = {}
    resolve.classes = classes
    return resolve


# ---------------------------------------------------------------------------------------------------------------- load-time canonical form
# Applied to every module when it is loaded (core.Ctx.parse, interp.Program), before any rule looks at it, so that the rules see one spelling of
# trivially equivalent programs.  Both rewrites are semantics preserving:
#
#   FORWARD  `t = e` directly followed by the only statement that reads `t` (t a local bound once, read once, the read not inside a lambda /
#            comprehension / nested def / loop body, and nothing with an effect -- a call -- evaluated before it in that statement):
#            the read is replaced by `e` and the assignment dropped.  (`ret = f(x); return ret` == `return f(x)`.)
#   CMPDIR   a two-operand comparison whose sides are side-effect free (names, attributes, constants, len()) is oriented: a constant goes to the
#            right (`0 < n` -> `n > 0`); otherwise `>` / `>=` become `<` / `<=`; `==` / `!=` order their operands by text.

_FLIP_DIR = {ast.Lt: ast.Gt, ast.Gt: ast.Lt, ast.LtE: ast.GtE, ast.GtE: ast.LtE, ast.Eq: ast.Eq, ast.NotEq: ast.NotEq}


def _simple_operand(e) -> bool:
    return all(isinstance(x, (ast.Name, ast.Attribute, ast.Constant, ast.expr_context)) or
               (isinstance(x, ast.Call) and isinstance(x.func, ast.Name) and x.func.id == "len" and not x.keywords) for x in ast.walk(e))


class _CmpDir(ast.NodeTransformer):
    def visit_Compare(self, n):
        self.generic_visit(n)
        if len(n.ops) != 1 or type(n.ops[0]) not in _FLIP_DIR:
            return n
        l, r = n.left, n.comparators[0]
        if not (_simple_operand(l) and _simple_operand(r)):
            return n
        cl, cr = isinstance(l, ast.Constant), isinstance(r, ast.Constant)
        swap = False
        if cl != cr:
            swap = cl
        elif isinstance(n.ops[0], (ast.Gt, ast.GtE)):
            swap = True
        elif isinstance(n.ops[0], (ast.Eq, ast.NotEq)):
            swap = ast.unparse(r) < ast.unparse(l)
        if swap:
            n.left, n.comparators, n.ops = r, [l], [_FLIP_DIR[type(n.ops[0])]()]
        return n


def _header_exprs(s):
    """the expressions of statement `s` that are evaluated once, first, when control reaches it"""
    if isinstance(s, (ast.Return, ast.Expr)):
        return [s.value] if s.value is not None else []
    if isinstance(s, ast.Assign):
        # value first, then the targets' sub-expressions; only the value is a forwarding site
        return [s.value]
    if isinstance(s, ast.AnnAssign):
        return [s.value] if s.value is not None else []
    if isinstance(s, ast.AugAssign):
        return []          # target is read before the value
    if isinstance(s, ast.If):
        return [s.test]
    if isinstance(s, ast.For):
        return [s.iter]
    if isinstance(s, ast.Raise):
        return [s.exc] if s.exc is not None and s.cause is None else []
    if isinstance(s, ast.Assert):
        return []
    return []


def _use_is_first_effect(expr, name) -> Optional[ast.Name]:
    """the single Load of `name` in expr if it exists outside nested scopes and no call / await / yield is evaluated before it; else None"""
    found = []
    blocked = [False]

    def contains(n):
        return any(isinstance(x, ast.Name) and x.id == name for x in ast.walk(n))

    def walk(n):
        if found or blocked[0]:
            return
        if isinstance(n, ast.Name):
            if n.id == name and isinstance(n.ctx, ast.Load):
                found.append(n)
            return
        if isinstance(n, (ast.Lambda, ast.ListComp, ast.SetComp, ast.DictComp, ast.GeneratorExp)):
            if contains(n):
                blocked[0] = True
            return
        if isinstance(n, (ast.BoolOp, ast.IfExp)):
            # short-circuit: only the first operand / the test is evaluated unconditionally
            first = n.values[0] if isinstance(n, ast.BoolOp) else n.test
            walk(first)
            if not found and contains(n):
                blocked[0] = True
            return
        if isinstance(n, (ast.Await, ast.Yield, ast.YieldFrom, ast.NamedExpr)):
            if contains(n):
                blocked[0] = True
            else:
                blocked[0] = True
            return
        if isinstance(n, ast.Call):
            for ch in [n.func] + list(n.args) + [k.value for k in n.keywords]:
                walk(ch)
                if found or blocked[0]:
                    return
            # the call itself happens here: a use after it would be reordered
            blocked[0] = True
            return
        for ch in ast.iter_child_nodes(n):
            if isinstance(ch, ast.expr_context):
                continue
            walk(ch)
            if found or blocked[0]:
                return
    walk(expr)
    return found[0] if found else None


def _own_nodes(fn):
    """nodes of fn's body, nested function / class bodies included (a nested read of a local keeps it alive)"""
    for s in fn.body:
        yield from ast.walk(s)


def forward_temps(fn) -> int:
    """FORWARD on one function (in place); returns the number of temporaries forwarded"""
    total = 0
    params = {a.arg for a in fn.args.posonlyargs + fn.args.args + fn.args.kwonlyargs}
    if fn.args.vararg:
        params.add(fn.args.vararg.arg)
    if fn.args.kwarg:
        params.add(fn.args.kwarg.arg)
    while True:
        stores: Dict[str, int] = {}
        loads: Dict[str, int] = {}
        barred = set(params)
        for n in _own_nodes(fn):
            if isinstance(n, ast.Name):
                if isinstance(n.ctx, ast.Load):
                    loads[n.id] = loads.get(n.id, 0) + 1
                else:
                    stores[n.id] = stores.get(n.id, 0) + 1
            elif isinstance(n, (ast.Global, ast.Nonlocal)):
                barred |= set(n.names)
            elif isinstance(n, ast.arg):
                barred.add(n.arg)
            elif isinstance(n, ast.ExceptHandler) and n.name:
                barred.add(n.name)
            elif isinstance(n, ast.Call) and isinstance(n.func, ast.Name) and n.func.id in ("locals", "vars", "eval", "exec"):
                return total
        changed = False
        lists = []
        for n in [fn] + [x for x in _own_nodes(fn)]:
            if isinstance(n, (ast.FunctionDef, ast.AsyncFunctionDef, ast.ClassDef)) and n is not fn:
                continue
            for fld in ("body", "orelse", "finalbody"):
                v = getattr(n, fld, None)
                if isinstance(v, list) and v and all(isinstance(x, ast.stmt) for x in v):
                    lists.append(v)
            if isinstance(n, ast.Try):
                for h in n.handlers:
                    lists.append(h.body)
        nested = set()
        for n in _own_nodes(fn):
            if isinstance(n, (ast.FunctionDef, ast.AsyncFunctionDef, ast.ClassDef)):
                for x in ast.walk(n):
                    if x is not n:
                        nested.add(id(x))
        # a name bound several times, every binding `t = e` directly followed by a statement holding the one read that binding reaches
        # (reads == bindings): each pair is independent of the others
        paired = set()
        cand: Dict[str, int] = {}
        for lst in lists:
            if lst and id(lst[0]) in nested:
                continue
            for a_, b_ in zip(lst, lst[1:]):
                if isinstance(a_, ast.Assign) and len(a_.targets) == 1 and isinstance(a_.targets[0], ast.Name):
                    t_ = a_.targets[0].id
                    if sum(isinstance(x, ast.Name) and x.id == t_ and isinstance(x.ctx, ast.Load) for x in ast.walk(b_)) == 1 \
                            and not any(isinstance(x, ast.Name) and x.id == t_ for x in ast.walk(a_.value)) \
                            and any(_use_is_first_effect(h, t_) is not None for h in _header_exprs(b_)[:1]):
                        cand[t_] = cand.get(t_, 0) + 1
        for t_, k_ in cand.items():
            if k_ > 1 and stores.get(t_) == k_ and loads.get(t_) == k_:
                paired.add(t_)
        for lst in lists:
            if lst and id(lst[0]) in nested:
                continue
            i = 0
            while i + 1 < len(lst):
                s, nx = lst[i], lst[i + 1]
                if isinstance(s, ast.Assign) and len(s.targets) == 1 and isinstance(s.targets[0], ast.Name):
                    t = s.targets[0].id
                    if t not in barred and (stores.get(t) == 1 and loads.get(t) == 1 or t in paired) and not any(isinstance(x, (ast.Yield, ast.YieldFrom, ast.Await, ast.NamedExpr))
                                                                                              for x in ast.walk(s.value)):
                        for h in _header_exprs(nx):
                            use = _use_is_first_effect(h, t)
                            if use is not None:
                                class Sub(ast.NodeTransformer):
                                    def visit_Name(self_, n):
                                        return ast.copy_location(copy.deepcopy(s.value), n) if n is use else n
                                for fld, v in list(ast.iter_fields(nx)):
                                    if v is h:
                                        setattr(nx, fld, Sub().visit(h))
                                del lst[i]
                                changed = True
                                total += 1
                                break
                            break    # only the first header expression is evaluated first
                        if changed:
                            break
                i += 1
            if changed:
                break
        if not changed:
            return total


def _exits(block) -> bool:
    return bool(block) and isinstance(block[-1], (ast.Return, ast.Raise, ast.Continue, ast.Break))


def _callfree(e) -> bool:
    return not any(isinstance(x, (ast.Call, ast.Await, ast.Yield, ast.YieldFrom, ast.NamedExpr)) for x in ast.walk(e))


def nnf(t, negate=False):
    """negation normal form of a test: negations pushed through and / or / not and into `in` / `is` comparisons (exact: `not` of a boolean
    combination evaluates the same operands' truth values in the same order with the same short-circuits); `==` / `!=` / orderings are only
    flipped between integers-looking operands (a constant or len() on one side)."""
    if isinstance(t, ast.UnaryOp) and isinstance(t.op, ast.Not):
        return nnf(t.operand, not negate)
    if isinstance(t, ast.BoolOp):
        if negate:
            return ast.copy_location(ast.BoolOp(ast.Or() if isinstance(t.op, ast.And) else ast.And(), [nnf(v, True) for v in t.values]), t)
        return ast.copy_location(ast.BoolOp(t.op, [nnf(v, False) for v in t.values]), t)
    if not negate:
        return t
    if isinstance(t, ast.Compare) and len(t.ops) == 1:
        op = type(t.ops[0])
        exact = {ast.In: ast.NotIn, ast.NotIn: ast.In, ast.Is: ast.IsNot, ast.IsNot: ast.Is}
        intlike = {ast.Eq: ast.NotEq, ast.NotEq: ast.Eq, ast.Lt: ast.GtE, ast.GtE: ast.Lt, ast.Gt: ast.LtE, ast.LtE: ast.Gt}

        def isint(e):
            return (isinstance(e, ast.Constant) and isinstance(e.value, int)) or (isinstance(e, ast.Call) and isinstance(e.func, ast.Name) and e.func.id == "len")
        if op in exact:
            return ast.copy_location(ast.Compare(t.left, [exact[op]()], t.comparators), t)
        if (op in (ast.Eq, ast.NotEq) and (isint(t.left) or isint(t.comparators[0]))) or (op in intlike and isint(t.left) and isint(t.comparators[0])):
            return ast.copy_location(ast.Compare(t.left, [intlike[op]()], t.comparators), t)
    return ast.copy_location(ast.UnaryOp(ast.Not(), t), t)


def _neg_count(t) -> int:
    n = 0
    for x in ast.walk(t):
        if isinstance(x, ast.UnaryOp) and isinstance(x.op, ast.Not):
            n += 1
        elif isinstance(x, ast.Compare):
            n += sum(isinstance(o, (ast.NotIn, ast.IsNot, ast.NotEq)) for o in x.ops)
    return n


class _Tests(ast.NodeTransformer):
    """NNF on every test; POLAR: a two-armed if whose negated test has fewer negations swaps its arms"""

    polar = False

    def visit_If(self, n):
        self.generic_visit(n)
        n.test = nnf(n.test)
        if n.orelse and self.polar:
            alt = nnf(copy.deepcopy(n.test), True)
            if _neg_count(alt) < _neg_count(n.test):
                n.test, n.body, n.orelse = alt, n.orelse, n.body
        return n

    def visit_While(self, n):
        self.generic_visit(n)
        n.test = nnf(n.test)
        return n

    def visit_IfExp(self, n):
        self.generic_visit(n)
        n.test = nnf(n.test)
        alt = nnf(copy.deepcopy(n.test), True)
        if _neg_count(alt) < _neg_count(n.test):
            n.test, n.body, n.orelse = alt, n.orelse, n.body
        return n

    def visit_Assert(self, n):
        self.generic_visit(n)
        n.test = nnf(n.test)
        return n


def _raise_only(block) -> bool:
    return len(block) == 1 and isinstance(block[0], ast.Raise)


def flatten_else(stmts: List[ast.stmt]) -> List[ast.stmt]:
    """ELSE: a two-armed if with an exiting arm becomes the guard form -- the exiting arm stays under the if (the test negated when that is the
    else arm), the other arm follows it.  When both arms exit, a raise-only arm is the guard.  Recursively over every statement list."""
    out: List[ast.stmt] = []
    for s in stmts:
        for fld in ("body", "orelse", "finalbody"):
            v = getattr(s, fld, None)
            if isinstance(v, list) and v and all(isinstance(x, ast.stmt) for x in v):
                setattr(s, fld, flatten_else(v))
        if isinstance(s, ast.Try):
            for h in s.handlers:
                h.body = flatten_else(h.body)
        if isinstance(s, ast.If) and s.orelse:
            be, oe = _exits(s.body), _exits(s.orelse)
            swap = (oe and not be) or (be and oe and _raise_only(s.orelse) and not _raise_only(s.body))
            if swap:
                s.test, s.body, s.orelse = nnf(s.test, True), s.orelse, s.body
                be = True
            if be:
                tail = s.orelse
                s.orelse = []
                out.append(s)
                out.extend(tail)
                continue
        out.append(s)
    return out


def unwalrus(stmts: List[ast.stmt]) -> List[ast.stmt]:
    """UNWALRUS: `if (x := E) ...:` / `y = f((x := E))` where the assignment expression is evaluated unconditionally and before any call of the
    statement's header -> `x = E` in front, `x` in its place (recursively; while-tests, comprehensions and short-circuited operands are left)"""
    out: List[ast.stmt] = []
    for s in stmts:
        for fld in ("body", "orelse", "finalbody"):
            v = getattr(s, fld, None)
            if isinstance(v, list) and v and all(isinstance(x, ast.stmt) for x in v) and not isinstance(s, (ast.FunctionDef, ast.AsyncFunctionDef, ast.ClassDef)):
                setattr(s, fld, unwalrus(v))
        if isinstance(s, ast.Try):
            for h in s.handlers:
                h.body = unwalrus(h.body)
        while True:
            hdrs = _header_exprs(s) if not isinstance(s, ast.For) else [s.iter]
            hit = None
            for h in hdrs[:1]:
                hit = _first_walrus(h)
            if hit is None:
                break
            out.append(ast.copy_location(ast.Assign([ast.Name(hit.target.id, ast.Store())], hit.value), s))

            class R(ast.NodeTransformer):
                def visit_NamedExpr(self_, n):
                    return ast.copy_location(ast.Name(hit.target.id, ast.Load()), n) if n is hit else self_.generic_visit(n)
            for fld, v in list(ast.iter_fields(s)):
                if any(v is h for h in hdrs[:1]):
                    setattr(s, fld, R().visit(v))
        out.append(s)
    return out


def _first_walrus(expr) -> Optional[ast.NamedExpr]:
    """the NamedExpr of `expr` that is evaluated first and unconditionally, with no call completed before it; else None"""
    found = []
    blocked = [False]

    def walk(n):
        if found or blocked[0]:
            return
        if isinstance(n, ast.NamedExpr):
            if any(isinstance(x, ast.NamedExpr) for x in ast.walk(n.value)):
                walk(n.value)
                return
            found.append(n)
            return
        if isinstance(n, (ast.Lambda, ast.ListComp, ast.SetComp, ast.DictComp, ast.GeneratorExp)):
            if any(isinstance(x, ast.NamedExpr) for x in ast.walk(n)):
                blocked[0] = True
            return
        if isinstance(n, (ast.BoolOp, ast.IfExp)):
            first = n.values[0] if isinstance(n, ast.BoolOp) else n.test
            walk(first)
            if not found and any(isinstance(x, ast.NamedExpr) for x in ast.walk(n)):
                blocked[0] = True
            return
        if isinstance(n, ast.Call):
            for ch in [n.func] + list(n.args) + [k.value for k in n.keywords]:
                walk(ch)
                if found or blocked[0]:
                    return
            if any(isinstance(x, ast.NamedExpr) for x in ast.walk(n)):
                blocked[0] = True
            else:
                blocked[0] = blocked[0]
            # a call completed before a later walrus: stop (evaluation order would change)
            blocked[0] = True
            return
        for ch in ast.iter_child_nodes(n):
            if isinstance(ch, ast.expr_context):
                continue
            walk(ch)
            if found or blocked[0]:
                return
    if not any(isinstance(x, ast.NamedExpr) for x in ast.walk(expr)):
        return None
    walk(expr)
    return found[0] if found else None


def guard_raise(stmts: List[ast.stmt], in_loop=False, is_func_body=False) -> List[ast.stmt]:
    """GUARD-RAISE: `if c: return` (bare; or `continue` in a loop body) followed by statements that end in a raise and contain no other exit
    == `if not c: <those statements>`: the refusal is spelled as the guarded arm (recursively)"""
    out: List[ast.stmt] = []
    stmts = list(stmts)
    for s in stmts:
        for fld in ("body", "orelse", "finalbody"):
            v = getattr(s, fld, None)
            if isinstance(v, list) and v and all(isinstance(x, ast.stmt) for x in v) and not isinstance(s, (ast.FunctionDef, ast.AsyncFunctionDef, ast.ClassDef)):
                setattr(s, fld, guard_raise(v, in_loop or isinstance(s, (ast.For, ast.While)) and fld == "body", False))
        if isinstance(s, ast.Try):
            for h in s.handlers:
                h.body = guard_raise(h.body, in_loop, False)
    i = 0
    while i < len(stmts):
        s = stmts[i]
        rest = stmts[i + 1:]
        if isinstance(s, ast.If) and not s.orelse and len(s.body) == 1 and rest and isinstance(rest[-1], ast.Raise) \
                and ((isinstance(s.body[0], ast.Return) and s.body[0].value is None and is_func_body)
                     or (isinstance(s.body[0], ast.Continue) and in_loop)) \
                and not any(isinstance(x, (ast.Return, ast.Continue, ast.Break, ast.Yield, ast.YieldFrom)) for r_ in rest for x in ast.walk(r_)):
            out.append(ast.copy_location(ast.If(nnf(s.test, True), rest, []), s))
            return out
        out.append(s)
        i += 1
    return out


def _sig_tables(tree: ast.Module):
    classes = {c.name: c for c in tree.body if isinstance(c, ast.ClassDef)}
    funcs = {f.name: f for f in tree.body if isinstance(f, ast.FunctionDef)}

    def methods(c, seen=()):
        out = {}
        if c is None or c.name in seen:
            return out
        for b in c.bases:
            bn = ast.unparse(b).split(".")[-1]
            if bn in classes:
                out.update(methods(classes[bn], seen + (c.name,)))
        out.update({m.name: m for m in c.body if isinstance(m, ast.FunctionDef)})
        return out
    return classes, funcs, methods


def _canon_call(call: ast.Call, fn: ast.FunctionDef, skip_first: bool) -> bool:
    """KW: required parameters positionally, defaulted / keyword-only ones by keyword, in signature order"""
    a = fn.args
    if a.vararg is not None or a.posonlyargs or any(isinstance(x, ast.Starred) for x in call.args) or any(k.arg is None for k in call.keywords):
        return False
    params = [x.arg for x in a.args][1 if skip_first else 0:]
    ndef = len(a.defaults)
    required = params[:len(params) - ndef] if ndef else list(params)
    defaulted = params[len(params) - ndef:] if ndef else []
    kwonly = [x.arg for x in a.kwonlyargs]
    if len(call.args) > len(params):
        return False
    bound = {}
    order = []
    for nm, v in zip(params, call.args):
        bound[nm] = v
        order.append(nm)
    for k in call.keywords:
        if k.arg in bound or k.arg not in params + kwonly:
            return False
        bound[k.arg] = k.value
        order.append(k.arg)
    if any(r not in bound for r in required):
        return False
    new_order = [r for r in required] + [d for d in defaulted if d in bound] + [k for k in kwonly if k in bound]
    if new_order != order and not all(_callfree(v) for v in bound.values()):
        return False
    new_args = [bound[r] for r in required]
    new_kw = [ast.keyword(d, bound[d]) for d in defaulted + kwonly if d in bound]
    changed = [ast.dump(x) for x in call.args] != [ast.dump(x) for x in new_args] or [(k.arg) for k in call.keywords] != [k.arg for k in new_kw]
    call.args, call.keywords = new_args, new_kw
    return changed


def canon_calls(tree: ast.Module) -> int:
    classes, funcs, methods = _sig_tables(tree)
    n = 0
    for c in classes.values():
        ms = methods(c)
        for m in c.body:
            if not isinstance(m, ast.FunctionDef):
                continue
            for call in ast.walk(m):
                if isinstance(call, ast.Call) and isinstance(call.func, ast.Attribute) and isinstance(call.func.value, ast.Name) \
                        and call.func.value.id in ("self", "cls") and call.func.attr in ms:
                    tgt = ms[call.func.attr]
                    decos = {ast.unparse(d) for d in tgt.decorator_list}
                    if "property" in decos:
                        continue
                    n += _canon_call(call, tgt, skip_first="staticmethod" not in decos)
    shadow = set()
    for x in ast.walk(tree):
        if isinstance(x, ast.Name) and isinstance(x.ctx, ast.Store):
            shadow.add(x.id)
        elif isinstance(x, ast.arg):
            shadow.add(x.arg)
    for call in ast.walk(tree):
        if isinstance(call, ast.Call) and isinstance(call.func, ast.Name) and call.func.id in funcs and call.func.id not in shadow \
                and not funcs[call.func.id].decorator_list:
            n += _canon_call(call, funcs[call.func.id], skip_first=False)
    return n


def _is_name_key(k, table) -> bool:
    """does the sort key `k` map an element to its .name?"""
    if isinstance(k, ast.Lambda) and len(k.args.args) == 1 and not k.args.defaults and isinstance(k.body, ast.Attribute) and k.body.attr == "name" \
            and isinstance(k.body.value, ast.Name) and k.body.value.id == k.args.args[0].arg:
        return True
    if isinstance(k, ast.Call) and ast.unparse(k.func) in ("attrgetter", "operator.attrgetter") and len(k.args) == 1 and not k.keywords \
            and isinstance(k.args[0], ast.Constant) and k.args[0].value == "name":
        return True
    if isinstance(k, ast.Name) and k.id in table:
        return True
    return False


class _SortKey(ast.NodeTransformer):
    """SORTKEY: every spelling of "sorted by .name" becomes `sorted(X, key=lambda x: x.name)`"""

    def __init__(self, table):
        self.table = table
        self.n = 0

    def visit_Call(self, c):
        self.generic_visit(c)
        if isinstance(c.func, ast.Name) and c.func.id == "sorted" and len(c.args) == 1 and len(c.keywords) == 1 and c.keywords[0].arg == "key" \
                and _is_name_key(c.keywords[0].value, self.table):
            canon = ast.parse("lambda x: x.name", mode="eval").body
            if ast.dump(c.keywords[0].value) != ast.dump(canon):
                self.n += 1
            c.keywords[0].value = ast.copy_location(canon, c)
        return c


def _restructure_continue(body: List[ast.stmt]) -> Optional[List[ast.stmt]]:
    """a loop body whose only `continue`s are guard exits (`if c: ...; continue` followed by the rest) written without them:
    `if c: ... else: <rest>` (exact); None when a continue / break remains elsewhere"""
    out = []
    for i, st in enumerate(body):
        if isinstance(st, ast.If) and st.body and isinstance(st.body[-1], ast.Continue) and not st.orelse:
            rest = _restructure_continue(body[i + 1:])
            head = _restructure_continue(st.body[:-1])
            if rest is None or head is None:
                return None
            out.append(ast.copy_location(ast.If(st.test, head or [ast.Pass()], rest), st))
            return out
        if isinstance(st, ast.Continue) and i == len(body) - 1:
            return out
        if any(isinstance(x, (ast.Continue, ast.Break)) for x in ast.walk(st) if not isinstance(x, (ast.For, ast.While)) or x is st) \
                and not isinstance(st, (ast.For, ast.While)):
            return None
        out.append(st)
    return out


def unroll_constant_tables(tree: ast.Module) -> int:
    """UNROLL (load time): `for a, b in TABLE: S` with TABLE a module-level tuple / list of constants (or of tuples of constants), bound once and
    never re-bound, at most 6 entries: S once per entry with the loop variables replaced by that entry's constants -- then `getattr(x, "name")`
    is `x.name` and a constant string in an f-string is its text.  (A table-driven loop and the hand-written sequence are the same statements.)"""
    counts: Dict[str, int] = {}
    tables: Dict[str, list] = {}
    for st in tree.body:
        if isinstance(st, (ast.Assign, ast.AnnAssign)):
            for t in (st.targets if isinstance(st, ast.Assign) else [st.target]):
                if isinstance(t, ast.Name):
                    counts[t.id] = counts.get(t.id, 0) + 1
    rebound = {x.id for f in ast.walk(tree) if isinstance(f, (ast.FunctionDef, ast.Lambda)) for x in ast.walk(f) if isinstance(x, ast.Name) and isinstance(x.ctx, ast.Store)}
    rebound |= {g for f in ast.walk(tree) if isinstance(f, ast.Global) for g in f.names}

    def const_row(e):
        if isinstance(e, ast.Constant):
            return [e]
        if isinstance(e, ast.Tuple) and e.elts and all(isinstance(x, ast.Constant) for x in e.elts):
            return list(e.elts)
        return None
    for st in tree.body:
        if isinstance(st, ast.Assign) and len(st.targets) == 1 and isinstance(st.targets[0], ast.Name) and counts.get(st.targets[0].id) == 1 \
                and st.targets[0].id not in rebound and isinstance(st.value, (ast.Tuple, ast.List)) and 1 <= len(st.value.elts) <= 6:
            rows = [const_row(e) for e in st.value.elts]
            if all(r is not None for r in rows) and len({len(r) for r in rows}) == 1:
                tables[st.targets[0].id] = rows
    n = [0]
    name_loads: Dict[str, int] = {}

    def fold(node):
        class F(ast.NodeTransformer):
            def visit_Call(self, c):
                self.generic_visit(c)
                if isinstance(c.func, ast.Name) and c.func.id == "getattr" and len(c.args) == 2 and not c.keywords and isinstance(c.args[1], ast.Constant) \
                        and isinstance(c.args[1].value, str) and c.args[1].value.isidentifier():
                    return ast.copy_location(ast.Attribute(c.args[0], c.args[1].value, ast.Load()), c)
                return c

            def visit_JoinedStr(self, js):
                self.generic_visit(js)
                vals = []
                for v in js.values:
                    if isinstance(v, ast.FormattedValue) and isinstance(v.value, ast.Constant) and isinstance(v.value.value, str) and v.conversion == -1 \
                            and v.format_spec is None:
                        v = ast.Constant(v.value.value)
                    if isinstance(v, ast.Constant) and vals and isinstance(vals[-1], ast.Constant):
                        vals[-1] = ast.Constant(vals[-1].value + v.value)
                    else:
                        vals.append(v)
                js.values = vals
                return js
        return F().visit(node)

    def conv(stmts, shadow):
        out = []
        for st in stmts:
            for fld in ("body", "orelse", "finalbody"):
                v = getattr(st, fld, None)
                if isinstance(v, list) and v and all(isinstance(x, ast.stmt) for x in v) and not isinstance(st, (ast.FunctionDef, ast.ClassDef)):
                    setattr(st, fld, conv(v, shadow))
            # a guard table: `for a, b, ... in ((..row..), ...)` (the display itself, or a local bound to it by the statement just before and read
            # nowhere else) whose rows are tuples of constants / names / attribute chains, and whose body raises: the hand-written sequence of
            # guards, one per row (the rows' expressions are read where the loop variables were; nothing in the body stores anything)
            if isinstance(st, ast.For) and not st.orelse and isinstance(st.target, (ast.Tuple, ast.List)) and all(isinstance(t, ast.Name) for t in st.target.elts) \
                    and len(st.body) <= 8 and any(isinstance(x, ast.Raise) for b in st.body for x in ast.walk(b)):
                disp, drop = None, False
                if isinstance(st.iter, (ast.Tuple, ast.List)):
                    disp = st.iter
                elif isinstance(st.iter, ast.Name) and out and isinstance(out[-1], ast.Assign) and len(out[-1].targets) == 1 and isinstance(out[-1].targets[0], ast.Name) \
                        and out[-1].targets[0].id == st.iter.id and isinstance(out[-1].value, (ast.Tuple, ast.List)) and name_loads.get(st.iter.id, 0) == 1:
                    disp, drop = out[-1].value, True

                def stable(e):
                    return isinstance(e, ast.Constant) or isinstance(e, ast.Name) or (isinstance(e, ast.Attribute) and stable(e.value))
                gbody = _restructure_continue(st.body) if disp is not None else None
                if disp is not None and gbody is not None and 1 <= len(disp.elts) <= 6 \
                        and all(isinstance(r, ast.Tuple) and len(r.elts) == len(st.target.elts) and all(stable(x) for x in r.elts) for r in disp.elts) \
                        and not any(isinstance(x, (ast.Yield, ast.YieldFrom, ast.FunctionDef, ast.Lambda, ast.Break, ast.Continue, ast.Return, ast.NamedExpr)) or
                                    (isinstance(x, (ast.Name, ast.Attribute, ast.Subscript)) and isinstance(x.ctx, (ast.Store, ast.Del))) for b in gbody for x in ast.walk(b)):
                    if drop:
                        out.pop()
                    names = [t.id for t in st.target.elts]
                    for row in disp.elts:
                        m = dict(zip(names, row.elts))

                        class S2(ast.NodeTransformer):
                            def visit_Name(self, nm):
                                return ast.copy_location(copy.deepcopy(m[nm.id]), nm) if isinstance(nm.ctx, ast.Load) and nm.id in m else nm
                        for b in gbody:
                            out.append(fold(S2().visit(copy.deepcopy(b))))
                    n[0] += 1
                    continue
            tname = None
            if isinstance(st, ast.For) and isinstance(st.iter, ast.Name):
                tname = st.iter.id if (st.iter.id in tables and st.iter.id not in shadow) else local_alias.get(st.iter.id)
            if isinstance(st, ast.For) and not st.orelse and tname is not None and len(st.body) <= 15:
                rows = tables[tname]
                tg = [st.target] if isinstance(st.target, ast.Name) else (list(st.target.elts) if isinstance(st.target, (ast.Tuple, ast.List)) else None)
                body = _restructure_continue(st.body)
                reflect = tg is not None and all(isinstance(t, ast.Name) for t in tg) and any(
                    isinstance(x, ast.Call) and isinstance(x.func, ast.Name) and x.func.id in ("getattr", "setattr", "hasattr") and len(x.args) >= 2
                    and isinstance(x.args[1], ast.Name) and x.args[1].id in {t.id for t in tg} for b in st.body for x in ast.walk(b))
                # only loops that use the table entries as attribute NAMES (reflection a static reading cannot follow) are unrolled; a loop over
                # a constant table of plain values stays the loop it is
                if reflect and len(tg) == len(rows[0]) and body is not None \
                        and not any(isinstance(x, ast.Name) and isinstance(x.ctx, ast.Store) and x.id in {t.id for t in tg} for b in body for x in ast.walk(b)) \
                        and not any(isinstance(x, (ast.Yield, ast.YieldFrom, ast.FunctionDef, ast.Lambda)) for b in body for x in ast.walk(b)):
                    names = [t.id for t in tg]
                    for row in rows:
                        m = dict(zip(names, row))

                        class S(ast.NodeTransformer):
                            def visit_Name(self, nm):
                                return ast.copy_location(ast.Constant(m[nm.id].value), nm) if isinstance(nm.ctx, ast.Load) and nm.id in m else nm
                        for b in body:
                            out.append(fold(S().visit(copy.deepcopy(b))))
                    n[0] += 1
                    continue
            out.append(st)
        return out
    local_alias: Dict[str, str] = {}
    for f in ast.walk(tree):
        if isinstance(f, (ast.FunctionDef, ast.AsyncFunctionDef)):
            shadow = {a.arg for a in ast.walk(f.args) if isinstance(a, ast.arg)} | {x.id for x in ast.walk(f) if isinstance(x, ast.Name) and isinstance(x.ctx, ast.Store)}
            # a local bound once to the table itself (`roles = _ROLE_TABLE`) reads the table
            nst: Dict[str, int] = {}
            for x in ast.walk(f):
                if isinstance(x, ast.Name) and isinstance(x.ctx, ast.Store):
                    nst[x.id] = nst.get(x.id, 0) + 1
            local_alias.clear()
            name_loads.clear()
            for x in ast.walk(f):
                if isinstance(x, ast.Name) and isinstance(x.ctx, ast.Load):
                    name_loads[x.id] = name_loads.get(x.id, 0) + 1
            for a in ast.walk(f):
                if isinstance(a, ast.Assign) and len(a.targets) == 1 and isinstance(a.targets[0], ast.Name) and nst.get(a.targets[0].id) == 1 \
                        and isinstance(a.value, ast.Name) and a.value.id in tables and a.value.id not in shadow:
                    local_alias[a.targets[0].id] = a.value.id
            f.body = conv(f.body, shadow)
    if n[0]:
        ast.fix_missing_locations(tree)
    return n[0]


def unmatch(tree: ast.Module) -> int:
    """MATCH (load time): a `match` whose cases are None / True / False, a class test `C()`, a value, the wildcard or a bare capture (optionally
    guarded) is the if / elif chain PEP 634 defines it to be: `is` for singletons, isinstance for class patterns, == for values; a capture binds
    the subject.  The subject is evaluated once (a name or attribute chain is used as it stands, anything else goes through a temporary)."""
    if not hasattr(ast, "Match"):
        return 0
    n = [0]
    k = [0]

    def test_of(pat, subj):
        """-> (test expr or None for irrefutable, [binding stmts]) or False when the pattern is not one of the simple forms"""
        if isinstance(pat, ast.MatchSingleton):
            return ast.Compare(copy.deepcopy(subj), [ast.Is()], [ast.Constant(pat.value)]), []
        if isinstance(pat, ast.MatchValue):
            return ast.Compare(copy.deepcopy(subj), [ast.Eq()], [pat.value]), []
        if isinstance(pat, ast.MatchClass) and not pat.patterns and not pat.kwd_patterns:
            return ast.Call(ast.Name("isinstance", ast.Load()), [copy.deepcopy(subj), pat.cls], []), []
        if isinstance(pat, ast.MatchAs) and pat.pattern is None:
            if pat.name is None:
                return None, []
            return None, [ast.Assign([ast.Name(pat.name, ast.Store())], copy.deepcopy(subj))]
        if isinstance(pat, ast.MatchAs) and pat.pattern is not None and pat.name is not None:
            r = test_of(pat.pattern, subj)
            if r is False:
                return False
            return r[0], r[1] + [ast.Assign([ast.Name(pat.name, ast.Store())], copy.deepcopy(subj))]
        if isinstance(pat, ast.MatchSequence):
            # PEP 634: the subject is a sequence (not str / bytes), of exactly len(patterns) items -- or at least that many minus the star;
            # items before the star are indexed from the front, items after it from the back; the star binds a list
            pats = pat.patterns
            stars = [i for i, p_ in enumerate(pats) if isinstance(p_, ast.MatchStar)]
            if len(stars) > 1:
                return False
            nfix = len(pats) - len(stars)
            ln = ast.Call(ast.Name("len", ast.Load()), [copy.deepcopy(subj)], [])
            tests = [ast.Call(ast.Name("isinstance", ast.Load()), [copy.deepcopy(subj), ast.Tuple([ast.Name("list", ast.Load()), ast.Name("tuple", ast.Load())], ast.Load())], []),
                     ast.Compare(ln, [ast.GtE() if stars else ast.Eq()], [ast.Constant(nfix)])]
            binds = []
            for i, p_ in enumerate(pats):
                after = len(pats) - 1 - i
                if isinstance(p_, ast.MatchStar):
                    if p_.name:
                        sl = ast.Slice(ast.Constant(i) if i else None, ast.Constant(-after) if after else None, None)
                        binds.append(ast.Assign([ast.Name(p_.name, ast.Store())],
                                                ast.Call(ast.Name("list", ast.Load()), [ast.Subscript(copy.deepcopy(subj), sl, ast.Load())], [])))
                    continue
                idx = i if (not stars or i < stars[0]) else -(after + 1)
                r = test_of(p_, ast.Subscript(copy.deepcopy(subj), ast.Constant(idx), ast.Load()))
                if r is False:
                    return False
                if r[0] is not None:
                    tests.append(r[0])
                binds += r[1]
            return ast.BoolOp(ast.And(), tests), binds
        if isinstance(pat, ast.MatchOr):
            parts = [test_of(p_, subj) for p_ in pat.patterns]
            if any(p_ is False or p_[1] or p_[0] is None for p_ in parts):
                return False
            return ast.BoolOp(ast.Or(), [p_[0] for p_ in parts]), []
        return False

    def conv(stmts):
        out = []
        for st in stmts:
            for fld in ("body", "orelse", "finalbody"):
                v = getattr(st, fld, None)
                if isinstance(v, list) and v and all(isinstance(x, ast.stmt) for x in v):
                    setattr(st, fld, conv(v))
            if isinstance(st, ast.Try):
                for h in st.handlers:
                    h.body = conv(h.body)
            if isinstance(st, ast.Match):
                for c in st.cases:
                    c.body = conv(c.body)
                pre = []
                subj = st.subject

                def chain_ok(e):
                    return isinstance(e, ast.Name) or (isinstance(e, ast.Attribute) and chain_ok(e.value))
                if not chain_ok(subj):
                    k[0] += 1
                    tmp = f"match__{k[0]}"
                    pre.append(ast.copy_location(ast.Assign([ast.Name(tmp, ast.Store())], subj), st))
                    subj = ast.Name(tmp, ast.Load())
                arms = []
                ok = True
                for c in st.cases:
                    r = test_of(c.pattern, subj)
                    if r is False:
                        ok = False
                        break
                    t, binds = r
                    if c.guard is not None:
                        if binds:
                            ok = False           # the guard may read the capture: keep the statement as it is
                            break
                        t = c.guard if t is None else ast.BoolOp(ast.And(), [t, c.guard])
                    arms.append((t, binds + c.body))
                    if t is None:
                        break                    # irrefutable: later cases are unreachable
                if ok and arms:
                    node = None
                    for t, body in reversed(arms):
                        if t is None:
                            node = body
                        else:
                            node = [ast.If(t, body, node or [])]
                    out.extend(pre)
                    for x in node:
                        out.append(ast.copy_location(x, st))
                    n[0] += 1
                    continue
            out.append(st)
        return out
    if not any(isinstance(x, ast.Match) for x in ast.walk(tree)):
        return 0
    for f in ast.walk(tree):
        if isinstance(f, (ast.FunctionDef, ast.AsyncFunctionDef)):
            f.body = conv(f.body)
    ast.fix_missing_locations(tree)
    return n[0]


def class_attrs_at_load(tree: ast.Module) -> int:
    """CLASS-ATTR (load time, after INHERIT): in a module-level class that has a base in the same module, `cls.X` / `self.X` of a class-body
    constant X (never re-bound through self / cls anywhere in the class chain) is that constant; `<non-None constant> is None` is then False,
    `None is None` True, the dead arm goes, and `list(<tuple display>)` is the list display.  (Declarative per-class tables read by shared base
    methods become the per-class methods they stand for.)"""
    classes = {c.name: c for c in tree.body if isinstance(c, ast.ClassDef)}
    enums = {c.name for c in classes.values() if any(ast.unparse(b).split(".")[-1] in ("Enum", "IntEnum", "Flag", "StrEnum") for b in c.bases)}
    n = 0

    def not_none(e):
        if isinstance(e, ast.Constant):
            return e.value is not None
        if isinstance(e, (ast.Tuple, ast.List, ast.Dict, ast.Set, ast.JoinedStr)):
            return True
        return isinstance(e, ast.Attribute) and isinstance(e.value, ast.Name) and e.value.id in enums

    class Fold(ast.NodeTransformer):
        def visit_Compare(self, c):
            self.generic_visit(c)
            if len(c.ops) == 1 and isinstance(c.ops[0], (ast.Is, ast.IsNot)) and isinstance(c.comparators[0], ast.Constant) and c.comparators[0].value is None:
                if isinstance(c.left, ast.Constant) and c.left.value is None:
                    return ast.copy_location(ast.Constant(isinstance(c.ops[0], ast.Is)), c)
                if not_none(c.left):
                    return ast.copy_location(ast.Constant(isinstance(c.ops[0], ast.IsNot)), c)
            return c

        def visit_Call(self, c):
            self.generic_visit(c)
            if isinstance(c.func, ast.Name) and c.func.id == "list" and len(c.args) == 1 and not c.keywords and isinstance(c.args[0], ast.Tuple) \
                    and not any(isinstance(e, ast.Starred) for e in c.args[0].elts):
                return ast.copy_location(ast.List(list(c.args[0].elts), ast.Load()), c)
            return c

    def prune(stmts):
        out = []
        for st in stmts:
            for fld in ("body", "orelse", "finalbody"):
                v = getattr(st, fld, None)
                if isinstance(v, list) and v and all(isinstance(x, ast.stmt) for x in v) and not isinstance(st, (ast.FunctionDef, ast.ClassDef)):
                    setattr(st, fld, prune(v) or ([ast.Pass()] if fld == "body" else []))
            if isinstance(st, ast.If) and isinstance(st.test, ast.Constant) and isinstance(st.test.value, bool):
                out.extend(st.body if st.test.value else st.orelse)
                continue
            out.append(st)
        return out
    for c in classes.values():
        if not (len(c.bases) == 1 and isinstance(c.bases[0], ast.Name) and c.bases[0].id in classes):
            continue
        consts = class_attr_constants(c, tree)
        if not consts:
            continue
        for i, m in enumerate(c.body):
            if isinstance(m, ast.FunctionDef) and any(isinstance(x, ast.Attribute) and isinstance(x.value, ast.Name) and x.value.id in ("self", "cls")
                                                     and x.attr in consts and isinstance(x.ctx, ast.Load) for x in ast.walk(m)):
                new = subst_class_attrs(m, consts)
                new = Fold().visit(new)
                new.body = prune(new.body) or [ast.Pass()]
                ast.fix_missing_locations(new)
                c.body[i] = new
                n += 1
    return n


def unsetdefault(tree: ast.Module) -> int:
    """SETDEFAULT (load time): the statement `D.setdefault(k, v)` (result unused; k, v names / constants / attribute chains) is
    `if k not in D: D[k] = v`"""
    n = [0]

    def simple(e):
        return all(isinstance(x, (ast.Name, ast.Constant, ast.Attribute, ast.expr_context)) for x in ast.walk(e))

    def conv(stmts):
        out = []
        for st in stmts:
            for fld in ("body", "orelse", "finalbody"):
                v = getattr(st, fld, None)
                if isinstance(v, list) and v and all(isinstance(x, ast.stmt) for x in v):
                    setattr(st, fld, conv(v))
            if isinstance(st, ast.Expr) and isinstance(st.value, ast.Call) and isinstance(st.value.func, ast.Attribute) and st.value.func.attr == "setdefault" \
                    and len(st.value.args) == 2 and not st.value.keywords and all(simple(a) for a in st.value.args) and simple(st.value.func.value):
                D, (k, v) = st.value.func.value, st.value.args
                out.append(ast.copy_location(ast.If(ast.Compare(k, [ast.NotIn()], [copy.deepcopy(D)]),
                                                    [ast.Assign([ast.Subscript(copy.deepcopy(D), copy.deepcopy(k), ast.Store())], v)], []), st))
                n[0] += 1
                continue
            out.append(st)
        return out
    if not any(isinstance(x, ast.Attribute) and x.attr == "setdefault" for x in ast.walk(tree)):
        return 0
    for f in ast.walk(tree):
        if isinstance(f, (ast.FunctionDef, ast.AsyncFunctionDef)):
            f.body = conv(f.body)
    ast.fix_missing_locations(tree)
    return n[0]


def flatten_bases(tree: ast.Module) -> int:
    """INHERIT (load time): a module-level class whose base is another module-level class of the same module (single inheritance, no metaclass
    keyword) gets copies of the methods and plain class attributes it inherits and does not override -- what attribute lookup would find
    anyway.  Inherited methods that call super() are left to the base.  Rules that read `cls.body` then see the whole class."""
    classes = {c.name: c for c in tree.body if isinstance(c, ast.ClassDef)}
    n = 0
    done = set()

    def members(c):
        out = {}
        for st in c.body:
            if isinstance(st, (ast.FunctionDef, ast.AsyncFunctionDef)):
                out[st.name] = st
            elif isinstance(st, ast.Assign) and len(st.targets) == 1 and isinstance(st.targets[0], ast.Name):
                out[st.targets[0].id] = st
            elif isinstance(st, ast.AnnAssign) and isinstance(st.target, ast.Name):
                out[st.target.id] = st
        return out

    def flatten(c):
        nonlocal n
        if c.name in done:
            return
        done.add(c.name)
        if len(c.bases) != 1 or c.keywords or not isinstance(c.bases[0], ast.Name) or c.bases[0].id not in classes or c.bases[0].id == c.name:
            return
        base = classes[c.bases[0].id]
        flatten(base)
        own = members(c)
        add = []
        for name, st in members(base).items():
            if name in own or (name.startswith("__") and name.endswith("__")):
                continue
            if isinstance(st, (ast.FunctionDef, ast.AsyncFunctionDef)) and any(isinstance(x, ast.Call) and isinstance(x.func, ast.Name) and x.func.id == "super" for x in ast.walk(st)):
                continue
            cp = copy.deepcopy(st)
            cp._inherited_from = base.name
            add.append(cp)
        if add:
            c.body = c.body + add
            n += len(add)
    for c in list(classes.values()):
        flatten(c)
    return n


def canon_module(tree: ast.Module) -> ast.Module:
    """FORWARD + CMPDIR over every function of the module (in place); records the counts on the tree"""
    nf = 0
    unmatch(tree)
    flatten_bases(tree)
    class_attrs_at_load(tree)
    unsetdefault(tree)
    unroll_constant_tables(tree)
    for n in ast.walk(tree):
        if isinstance(n, (ast.FunctionDef, ast.AsyncFunctionDef)):
            n.body = unwalrus(n.body)
    _Tests().visit(tree)
    for n in ast.walk(tree):
        if isinstance(n, (ast.FunctionDef, ast.AsyncFunctionDef)):
            n.body = guard_raise(n.body, False, True)
    for n in tree.body:
        if isinstance(n, (ast.FunctionDef, ast.AsyncFunctionDef, ast.ClassDef)):
            n.body = flatten_else(n.body)        # recursive: methods and nested functions included
    pol = _Tests()
    pol.polar = True
    pol.visit(tree)
    for n in tree.body:
        if isinstance(n, (ast.FunctionDef, ast.AsyncFunctionDef)):
            unchain_assign(n)                        # CHAIN
        elif isinstance(n, ast.ClassDef):
            for m_ in n.body:
                if isinstance(m_, (ast.FunctionDef, ast.AsyncFunctionDef)):
                    unchain_assign(m_)
    for n in ast.walk(tree):
        if isinstance(n, (ast.FunctionDef, ast.AsyncFunctionDef)):
            reduce_loops(n)                          # REDUCE: a functools fold written as the loop it abbreviates
    for n in tree.body:
        for m_ in ([n] if isinstance(n, ast.FunctionDef) else (n.body if isinstance(n, ast.ClassDef) else [])):
            if isinstance(m_, ast.FunctionDef):
                splice_local_generators(m_)          # CHAIN-LIST / LOCAL-GEN / GENEXP-LOOP
                resolve_unset(m_)
    for n in ast.walk(tree):
        if isinstance(n, (ast.FunctionDef, ast.AsyncFunctionDef)):
            n.body = Normaliser.beta(n.body, [a_.arg for a_ in ast.walk(n.args) if isinstance(a_, ast.arg)])         # CALLABLE: partial(...) / `A if c else B` / lambda bound once and only called
    for n in ast.walk(tree):
        if isinstance(n, (ast.FunctionDef, ast.AsyncFunctionDef)):
            nf += forward_temps(n)
    for n in ast.walk(tree):
        if isinstance(n, (ast.FunctionDef, ast.AsyncFunctionDef)):
            extend_loops(n)                          # APPEND-LOOP
    nk = canon_calls(tree)
    _CmpDir().visit(tree)
    # module-level names that are "the .name of an element" (bound once, never rebound in a function)
    table = set()
    counts: Dict[str, int] = {}
    for st in tree.body:
        if isinstance(st, ast.Assign) and len(st.targets) == 1 and isinstance(st.targets[0], ast.Name):
            counts[st.targets[0].id] = counts.get(st.targets[0].id, 0) + 1
    rebound = {x.id for f in ast.walk(tree) if isinstance(f, (ast.FunctionDef, ast.Lambda)) for x in ast.walk(f) if isinstance(x, ast.Name) and isinstance(x.ctx, ast.Store)}
    for st in tree.body:
        if isinstance(st, ast.Assign) and len(st.targets) == 1 and isinstance(st.targets[0], ast.Name) and counts[st.targets[0].id] == 1 \
                and st.targets[0].id not in rebound and _is_name_key(st.value, set()):
            table.add(st.targets[0].id)
        elif isinstance(st, ast.FunctionDef) and st.name not in rebound and st.name not in counts and len(st.args.args) == 1 and not st.decorator_list:
            body = [b for b in st.body if not (isinstance(b, ast.Expr) and isinstance(b.value, ast.Constant))]
            if len(body) == 1 and isinstance(body[0], ast.Return) and isinstance(body[0].value, ast.Attribute) and body[0].value.attr == "name" \
                    and isinstance(body[0].value.value, ast.Name) and body[0].value.value.id == st.args.args[0].arg:
                table.add(st.name)
    sk = _SortKey(table)
    sk.visit(tree)
    ast.fix_missing_locations(tree)
    tree._canon = {"forwarded": nf, "calls": nk, "sortkeys": sk.n}
    return tree
