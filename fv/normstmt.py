"""Statement normalisation for structural rules: tuple-assignment splitting and alias substitution, so that rules compare
*what is computed* rather than how the author named and grouped temporaries.

  flatten(fn)   -> ordered Items (assignments split, loops recorded as context)
  Aliases(fn)   -> names assigned exactly once in the function from a *pure* expression (no call except len/int/float/str,
                   attribute chains, subscripts, constants, arithmetic); text(expr) substitutes them recursively and strips
                   redundant parentheses / whitespace.
"""
from __future__ import annotations

import ast
import copy
from dataclasses import dataclass, field
from typing import Any, Dict, List, Optional

PURE_CALLS = {"len", "int", "float", "str"}


@dataclass
class Item:
    kind: str                 # assign | expr | return | raise | if | for-begin | for-end
    target: Optional[ast.AST]
    value: Optional[ast.AST]
    loops: tuple
    stmt: ast.AST
    guards: tuple = ()


def flatten(fn: ast.FunctionDef) -> List[Item]:
    out: List[Item] = []

    def walk(stmts, loops, guards):
        for s in stmts:
            if isinstance(s, ast.Assign):
                for t in s.targets:
                    if isinstance(t, (ast.Tuple, ast.List)) and isinstance(s.value, (ast.Tuple, ast.List)) and len(t.elts) == len(s.value.elts):
                        for a, b in zip(t.elts, s.value.elts):
                            out.append(Item("assign", a, b, loops, s, guards))
                    else:
                        out.append(Item("assign", t, s.value, loops, s, guards))
            elif isinstance(s, ast.AnnAssign) and s.value is not None:
                out.append(Item("assign", s.target, s.value, loops, s, guards))
            elif isinstance(s, ast.AugAssign):
                out.append(Item("assign", s.target, ast.BinOp(left=copy.deepcopy(s.target), op=s.op, right=s.value), loops, s, guards))
            elif isinstance(s, ast.Expr):
                if not isinstance(s.value, ast.Constant):
                    out.append(Item("expr", None, s.value, loops, s, guards))
            elif isinstance(s, ast.Return):
                out.append(Item("return", None, s.value, loops, s, guards))
            elif isinstance(s, ast.Raise):
                out.append(Item("raise", None, s.exc, loops, s, guards))
            elif isinstance(s, ast.For):
                out.append(Item("for-begin", s.target, s.iter, loops, s, guards))
                walk(s.body, loops + (s,), guards)
                out.append(Item("for-end", None, None, loops, s, guards))
            elif isinstance(s, ast.If):
                out.append(Item("if", None, s.test, loops, s, guards))
                walk(s.body, loops, guards + ((s.test, True),))
                walk(s.orelse, loops, guards + ((s.test, False),))
            elif isinstance(s, (ast.With, ast.Try)):
                walk(s.body, loops, guards)
            elif isinstance(s, ast.Assert):
                out.append(Item("assert", None, s.test, loops, s, guards))
    walk(fn.body, (), ())
    return out


def _pure(e) -> bool:
    for n in ast.walk(e):
        if isinstance(n, ast.Call):
            if not (isinstance(n.func, ast.Name) and n.func.id in PURE_CALLS):
                return False
        if isinstance(n, (ast.Lambda, ast.ListComp, ast.DictComp, ast.SetComp, ast.GeneratorExp, ast.Yield, ast.Await, ast.NamedExpr)):
            return False
    return True


class Aliases:
    def __init__(self, fn: ast.FunctionDef, items: List[Item] = None, linear_calls: bool = False):
        """linear_calls: also substitute a name assigned once from an arbitrary expression when it is *used exactly once* and the use is in the
        same block as, and after, the assignment (inlining a temporary; evaluation order of side effects is unchanged)."""
        items = items if items is not None else flatten(fn)
        self._linear = linear_calls
        count: Dict[str, int] = {}
        val: Dict[str, ast.AST] = {}
        texts: Dict[str, set] = {}
        params = {a.arg for a in fn.args.args + fn.args.kwonlyargs}
        for it in items:
            if it.kind == "assign" and isinstance(it.target, ast.Name):
                t = ast.unparse(it.value)
                if t in texts.setdefault(it.target.id, set()):
                    continue            # re-assigned from the very same expression: still one definition
                texts[it.target.id].add(t)
                count[it.target.id] = count.get(it.target.id, 0) + 1
                val[it.target.id] = it.value
            elif it.kind == "for-begin":
                for n in ast.walk(it.target):
                    if isinstance(n, ast.Name):
                        count[n.id] = count.get(n.id, 0) + 2
        self.map = {n: v for n, v in val.items() if count[n] == 1 and n not in params and _pure(v)}
        if linear_calls:
            uses: Dict[str, int] = {}
            for n in ast.walk(fn):
                if isinstance(n, ast.Name) and isinstance(n.ctx, ast.Load):
                    uses[n.id] = uses.get(n.id, 0) + 1
            for n, v in val.items():
                if n not in self.map and count[n] == 1 and n not in params and uses.get(n, 0) == 1:
                    self.map[n] = v

    def subst(self, e, depth=0):
        if e is None or depth > 8:
            return e
        m = self.map
        outer = self

        class T(ast.NodeTransformer):
            def visit_Name(self, n):
                if isinstance(n.ctx, ast.Load) and n.id in m:
                    return outer.subst(copy.deepcopy(m[n.id]), depth + 1)
                return n
        return T().visit(copy.deepcopy(e))

    def text(self, e) -> str:
        if e is None:
            return "None"
        return ast.unparse(self.subst(e)).replace(" ", "")


def unparen(t: str) -> str:
    while t.startswith("(") and t.endswith(")"):
        depth = 0
        ok = True
        for i, ch in enumerate(t):
            depth += ch == "("
            depth -= ch == ")"
            if depth == 0 and i < len(t) - 1:
                ok = False
                break
        if not ok:
            break
        t = t[1:-1]
    return t
