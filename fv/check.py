"""CLI: /venv/bin/python /verif/fv/check.py <property id> [--tier quick|thorough] [--repo PATH]

Static analysis only: parses the files under --repo (default /repo, or $FV_REPO) with `ast`
(and clang -fsyntax-only for the C++ headers/templates); imports and executes nothing of formak.
"""
import argparse
import importlib
import os
import sys
import traceback

sys.path.insert(0, os.path.dirname(os.path.dirname(os.path.abspath(__file__))))


def main():
    ap = argparse.ArgumentParser()
    ap.add_argument("prop")
    ap.add_argument("--tier", default=os.environ.get("VERIF_TIER", "quick"), choices=["quick", "thorough"])
    ap.add_argument("--repo", default=None)
    ap.add_argument("--replay", default=None, help="print a stored violation report")
    a = ap.parse_args()
    if a.repo:
        os.environ["FV_REPO"] = os.path.abspath(a.repo)
    from fv import core
    if a.replay:
        print(open(a.replay).read())
        return 0
    core.REPO = os.environ.get("FV_REPO", "/repo")
    pid = a.prop.upper()
    ctx = core.Ctx(prop=pid, tier=a.tier, repo=core.REPO)
    try:
        mod = importlib.import_module(f"fv.props.{pid.lower()}")
    except ModuleNotFoundError:
        print(f"ANALYSIS-ERROR property={pid} no check implemented")
        return 2
    try:
        return mod.run(ctx)
    except core.AnalysisError as e:
        ctx.error(str(e))
        return core.finish(ctx, explanation="analysis aborted", **getattr(mod, "META", {}))
    except Exception as e:  # a crash of the analyser is never a verdict about the code
        traceback.print_exc()
        ctx.error(f"analyser crashed: {type(e).__name__}: {e}")
        try:
            return core.finish(ctx, explanation="analysis aborted", **getattr(mod, "META", {}))
        except Exception:
            print(f"ANALYSIS-ERROR property={pid} analyser crashed: {e}")
            return 2


if __name__ == "__main__":
    sys.exit(main())
