"""Partial evaluator for the repo's *construction* code (ast_fragments.py, cpp._header_body / _source_body).

The C++ compile witnesses (E4) need the declaration skeleton the generator would print for one flag valuation.
Rather than a frozen copy, the skeleton is derived from the current source: this evaluator walks the parsed
functions (never imports them) with a stand-in `generator` whose symbol lists are placeholder names and whose
sizes are pairwise distinct numbers, and builds mirror nodes for the ast_tools constructors it meets.  It
supports exactly the constructs that construction code uses (calls of node constructors and of sibling
functions, generator functions with yield / yield from, if / for, list / tuple / dict literals, comprehensions,
f-strings, %-formatting, str methods, list concatenation, enumerate / sorted / list / chain.from_iterable);
anything else raises AnalysisError -- never a guess.
"""
from __future__ import annotations

import ast
import itertools
from typing import Any, Dict, List

from . import core

NODE_FIELDS = {
    "Arg": ["type_", "name"],
    "Namespace": ["name", "body"],
    "ClassDef": ["tag", "name", "bases", "body"],
    "EnumClassDef": ["name", "members"],
    "ForwardClassDeclaration": ["tag", "name"],
    "MemberDeclaration": ["type_", "name", "value"],
    "UsingDeclaration": ["name", "type_"],
    "ConstructorDeclaration": ["args"],
    "ConstructorDefinition": ["classname", "args", "initializer_list"],
    "FunctionDef": ["return_type", "name", "args", "modifier", "body"],
    "FunctionDeclaration": ["return_type", "name", "args", "modifier"],
    "Return": ["value"],
    "If": ["test", "body", "orelse"],
    "Templated": ["template_args", "templated"],
    "FromFileTemplate": ["name", "inserts"],
    "Escape": ["string"],
    "Public": [],
    "Private": [],
    "HeaderFile": ["pragma", "includes", "namespaces"],
    "SourceFile": ["includes", "namespaces"],
}


class Node:
    def __init__(self, kind, **fields):
        self.kind = kind
        self.__dict__.update(fields)

    def __repr__(self):
        return f"{self.kind}({', '.join(f'{k}={v!r}' for k, v in self.__dict__.items() if k != 'kind')})"


def make_node(kind):
    fields = NODE_FIELDS[kind]

    def ctor(*args, **kwargs):
        vals = dict.fromkeys(fields)
        for f, a in zip(fields, args):
            vals[f] = a
        for k, v in kwargs.items():
            if k not in vals:
                raise core.AnalysisError(f"{kind}() got unexpected field {k}")
            vals[k] = v
        for f in ("args", "body", "template_args", "members", "bases"):
            if f in vals and vals[f] is not None and not isinstance(vals[f], list):
                vals[f] = list(vals[f])
        return Node(kind, **vals)
    return ctor


class ClassRef:
    """a class defined in one of the evaluated modules (the repo's ast_tools node classes): calling it builds an Inst"""

    def __init__(self, ev, mod, node):
        self.ev, self.mod, self.node = ev, mod, node

    def mro(self):
        out = [self]
        for b in self.node.bases:
            nm = ast.unparse(b).split(".")[-1]
            c = self.ev.find_class(nm)
            if c is not None:
                out += c.mro()
        return out

    def fields(self):
        """dataclass fields in declaration order: [(name, default node | None)]"""
        out = []
        for c in reversed(self.mro()):
            for s in c.node.body:
                if isinstance(s, ast.AnnAssign) and isinstance(s.target, ast.Name):
                    out = [f for f in out if f[0] != s.target.id] + [(s.target.id, s.value, c.mod)]
        return out

    def method(self, name):
        for c in self.mro():
            for s in c.node.body:
                if isinstance(s, ast.FunctionDef) and s.name == name:
                    return c, s
        return None

    def __call__(self, *args, **kwargs):
        init = None
        for c in self.mro():
            own = next((s_ for s_ in c.node.body if isinstance(s_, ast.FunctionDef) and s_.name == "__init__"), None)
            if own is not None:
                init = (c, own)
                break
            if any("dataclass" in ast.unparse(d) for d in c.node.decorator_list):
                break                       # a dataclass generates its own __init__ from its fields
        if init is not None:
            # an ordinary class: an empty instance handed to its own __init__
            inst = Inst(self.node.name)
            inst.__dict__["_cls"] = self
            owner, fn = init
            self.ev.call(Func(self.ev, owner.mod, fn, self_obj=inst), list(args), dict(kwargs))
            return inst
        flds = self.fields()
        if len(args) > len(flds):
            raise core.AnalysisError(f"{self.node.name}() got {len(args)} positional arguments for {len(flds)} fields")
        vals = {}
        for (nm, _, _), a in zip(flds, args):
            vals[nm] = a
        for k, v in kwargs.items():
            if k not in [f[0] for f in flds] or k in vals:
                raise core.AnalysisError(f"{self.node.name}() got an unexpected / repeated field {k}")
            vals[k] = v
        for nm, d, m in flds:
            if nm not in vals:
                if d is None:
                    raise core.AnalysisError(f"{self.node.name}() missing field {nm}")
                vals[nm] = self.ev.ev(d, {}, m)
        inst = Inst(self.node.name, **vals)
        inst.__dict__["_cls"] = self
        return inst


class Inst(Node):
    """instance of a repo class; fields are plain attributes, methods are evaluated from the class's source"""

    def __getattr__(self, name):
        cls = self.__dict__.get("_cls")
        if cls is None or name.startswith("__"):
            raise AttributeError(name)
        hook = cls.ev.method_hooks.get((cls.node.name, name))
        if hook is not None:
            return lambda *a, **k: hook(self, *a, **k)
        m = cls.method(name)
        if m is None:
            raise AttributeError(name)
        owner, fn = m
        decos = {ast.unparse(d) for d in fn.decorator_list}
        if "property" in decos or "functools.cached_property" in decos or "cached_property" in decos:
            return cls.ev.call(Func(cls.ev, owner.mod, fn, self_obj=self), [], {})
        if "staticmethod" in decos:
            return Func(cls.ev, owner.mod, fn, self_obj=None)
        if "classmethod" in decos:
            return Func(cls.ev, owner.mod, fn, self_obj=cls)
        return Func(cls.ev, owner.mod, fn, self_obj=self)


class GenList(list):
    """what a generator function of the evaluated code returns: its items, plus the one-shot discipline of a Python generator -- the evaluated code
    can iterate it once; a second iteration (the same generator object stored in two places, a shared node printed twice) sees nothing, as it
    would at run time.  The analyses' own traversals use it as a plain list and do not consume it."""
    reuse_log: List[str] = []

    def __init__(self, items, origin=""):
        super().__init__(items)
        self.used = False
        self.origin = origin


def consume(v):
    """iterate a value on behalf of the evaluated code"""
    if isinstance(v, GenList):
        if v.used:
            if v.origin not in GenList.reuse_log:
                GenList.reuse_log.append(v.origin)
            return []
        v.used = True
        return list(v)
    return v


class _Return(Exception):
    def __init__(self, v):
        self.v = v


class ModuleProxy:
    def __init__(self, ev, name):
        self.ev, self.name = ev, name


class Func:
    def __init__(self, ev, mod, node, self_obj=None, closure=None):
        self.ev, self.mod, self.node, self.self_obj = ev, mod, node, self_obj
        self.closure = closure            # the defining function's variables, for a nested def

    def __call__(self, *args, **kwargs):
        return self.ev.call(self, args, kwargs)


_PLAIN_TYPES = (list, tuple, dict, set, frozenset, str, int, float, bool, bytes, type(None))


def _isinstance(a, b):
    """isinstance for the evaluated code: decided for the built-in container / scalar types (a `match` on a list, `isinstance(x, (list, tuple))`);
    for anything else -- repo classes, sympy / numpy types against the witness stand-ins -- the answer stays False as before"""
    ts = b if isinstance(b, tuple) else (b,)
    if ts and all(isinstance(t, type) and t in _PLAIN_TYPES for t in ts):
        return isinstance(a, ts)
    return False


BUILTINS = {"list": list, "sorted": sorted, "enumerate": lambda *a, **k: list(enumerate(*a, **k)), "len": len, "str": str, "zip": lambda *a: list(zip(*a)),
            "range": lambda *a: list(range(*a)), "tuple": tuple, "dict": dict, "set": set, "int": int, "float": float, "bool": bool,
            "isinstance": lambda a, b: _isinstance(a, b), "repr": repr, "min": min, "max": max, "any": any, "all": all, "print": lambda *a, **k: None,
            "getattr": getattr, "hasattr": hasattr, "sum": sum, "abs": abs, "reversed": lambda x: list(reversed(list(x))), "map": lambda f, *a: list(map(f, *a)),
            "filter": lambda f, a: list(filter(f, a)), "frozenset": frozenset, "round": round, "divmod": divmod, "iter": iter, "next": None, "type": type}


def _next(it, *default):
    """next() for the evaluated code: a generator result hands out its items one by one"""
    if isinstance(it, GenList):
        if "_it" not in it.__dict__:
            it.__dict__["_it"] = list.__iter__(it)
            it.used = True
        return next(it.__dict__["_it"], *default)
    return next(it, *default)


BUILTINS["next"] = _next


class _Chain:
    """itertools.chain for the evaluated code (results are lists)"""

    def __new__(cls, *its):
        out = []
        for i in its:
            out.extend(list(consume(i)))
        return out

    @staticmethod
    def from_iterable(it):
        out = []
        for i in consume(it):
            out.extend(list(consume(i)))
        return out


class MiniEval:
    def __init__(self, modules: Dict[str, ast.Module], aliases: Dict[str, str] = None, natives: Dict[str, Any] = None):
        self.modules = modules
        self.funcs = {m: {n.name: n for n in t.body if isinstance(n, ast.FunctionDef)} for m, t in modules.items()}
        self.classes = {m: {n.name: n for n in t.body if isinstance(n, ast.ClassDef)} for m, t in modules.items()}
        # module-level constants: NAME = <expression> (evaluated on first use)
        self.assigns: Dict[str, Dict[str, ast.AST]] = {}
        for m, t in modules.items():
            d = {}
            for n in t.body:
                if isinstance(n, ast.Assign) and len(n.targets) == 1 and isinstance(n.targets[0], ast.Name):
                    d[n.targets[0].id] = n.value
                elif isinstance(n, ast.AnnAssign) and isinstance(n.target, ast.Name) and n.value is not None:
                    d[n.target.id] = n.value
            self.assigns[m] = d
        self._modvals: Dict[Any, Any] = {}
        self.method_hooks: Dict[Any, Any] = {}      # (class name, method name) -> python callable(inst, *args, **kwargs): modelled externals (jinja2)
        self.aliases = aliases or {}
        self.natives = dict(natives or {})
        self.user_natives = dict(natives or {})
        for k in NODE_FIELDS:
            self.natives.setdefault(k, make_node(k))
        self.natives.setdefault("chain", _Chain)
        # standard-library helpers the construction code may import (evaluated by the real functions: they are pure)
        import collections as _collections
        import functools as _functools
        import operator as _operator
        import string as _string

        def _methodcaller(name, *a, **k):
            # operator.methodcaller on evaluated objects: the method is looked up through the evaluator's own attribute protocol
            def call(obj):
                return getattr(obj, name)(*a, **k)
            return call
        for _nm, _v in (("namedtuple", _collections.namedtuple), ("count", itertools.count), ("product", itertools.product),
                        ("combinations", itertools.combinations), ("repeat", itertools.repeat), ("attrgetter", _operator.attrgetter),
                        ("itemgetter", _operator.itemgetter), ("methodcaller", _methodcaller), ("operator", _operator), ("itertools", itertools),
                        ("object", object), ("Template", _string.Template), ("string", _string), ("functools", _functools),
                        ("partial", _functools.partial), ("reduce", _functools.reduce), ("starmap", itertools.starmap),
                        ("zip_longest", itertools.zip_longest), ("islice", itertools.islice), ("accumulate", itertools.accumulate),
                        ("ModelConstructionError", type("ModelConstructionError", (Exception,), {})),
                        ("ModelDefinitionError", type("ModelDefinitionError", (Exception,), {}))):
            self.natives.setdefault(_nm, _v)
        self.depth = 0
        self.steps = 0

    def imported(self, mod):
        """{local name: (module, name)} for `from formak.<module> import name [as local]` in `mod`, modules limited to the evaluated ones"""
        cache = self.__dict__.setdefault("_imports", {})
        if mod not in cache:
            out = {}
            for n in self.modules[mod].body if mod in self.modules else []:
                if isinstance(n, ast.ImportFrom) and n.module and n.module.split(".")[0] == "formak" and len(n.module.split(".")) > 1:
                    m2 = n.module.split(".")[-1]
                    if m2 in self.modules:
                        for a in n.names:
                            out[a.asname or a.name] = (m2, a.name)
            cache[mod] = out
        return cache[mod]

    def find_class(self, name):
        for m, cs in self.classes.items():
            if name in cs:
                return ClassRef(self, m, cs[name])
        return None

    # -------- entry
    def call_named(self, mod, name, *args, **kwargs):
        fn = self.funcs.get(mod, {}).get(name)
        if fn is None:
            raise core.AnalysisError(f"anchor missing: {mod}.{name}")
        return self.call(Func(self, mod, fn), args, kwargs)

    def call(self, f: Func, args, kwargs):
        fn = f.node
        self.depth += 1
        if self.depth > 40:
            raise core.AnalysisError("construction code recursion too deep")
        env: Dict[str, Any] = dict(f.closure) if getattr(f, "closure", None) else {}
        params = [a.arg for a in fn.args.args]
        if f.self_obj is not None:
            env[params[0]] = f.self_obj
            params = params[1:]
        defaults = fn.args.defaults
        for i, p in enumerate(params):
            if i < len(args):
                env[p] = args[i]
        if fn.args.vararg is not None:
            env[fn.args.vararg.arg] = tuple(args[len(params):])
        elif len(args) > len(params):
            raise core.AnalysisError(f"{f.mod}.{fn.name}: {len(args)} positional arguments for {len(params)} parameters")
        for p, d in zip(params[len(params) - len(defaults):], defaults):
            if p not in env:
                env[p] = self.ev(d, env, f.mod)
        for a, d in zip(fn.args.kwonlyargs, fn.args.kw_defaults):
            if d is not None:
                env[a.arg] = self.ev(d, env, f.mod)
        named = set(params) | {a.arg for a in fn.args.kwonlyargs}
        extra = {}
        for k, v in kwargs.items():
            if k in named or fn.args.kwarg is None:
                env[k] = v
            else:
                extra[k] = v
        if fn.args.kwarg is not None:
            env[fn.args.kwarg.arg] = extra
        missing = [p for p in params + [a.arg for a in fn.args.kwonlyargs] if p not in env]
        if missing:
            raise core.AnalysisError(f"{f.mod}.{fn.name}: missing argument(s) {missing}")
        def _own_yield(node):
            for ch in ast.iter_child_nodes(node):
                if isinstance(ch, (ast.FunctionDef, ast.AsyncFunctionDef, ast.Lambda, ast.ClassDef)):
                    continue
                if isinstance(ch, (ast.Yield, ast.YieldFrom)) or _own_yield(ch):
                    return True
            return False
        is_gen = _own_yield(fn)
        out: List[Any] = []
        try:
            self.block(fn.body, env, f.mod, out)
            ret = None
        except _Return as r:
            ret = r.v
        self.depth -= 1
        return GenList(out, f"{f.mod}.{fn.name}") if is_gen else ret

    # -------- statements
    def block(self, stmts, env, mod, out):
        for s in stmts:
            self.steps += 1
            if self.steps > 200000:
                raise core.AnalysisError("construction code evaluation exceeded its step budget")
            if isinstance(s, ast.Expr):
                v = s.value
                if isinstance(v, ast.Yield):
                    out.append(self.ev(v.value, env, mod) if v.value is not None else None)
                elif isinstance(v, ast.YieldFrom):
                    out.extend(list(consume(self.ev(v.value, env, mod))))
                elif isinstance(v, ast.Constant):
                    pass
                else:
                    self.ev(v, env, mod)
            elif isinstance(s, ast.Assign):
                val = self.ev(s.value, env, mod)
                for t in s.targets:
                    self.assign(t, val, env, mod)
            elif isinstance(s, ast.AnnAssign):
                if s.value is not None:
                    self.assign(s.target, self.ev(s.value, env, mod), env, mod)
            elif isinstance(s, ast.Assert):
                pass
            elif isinstance(s, ast.AugAssign) and isinstance(s.target, ast.Name) and isinstance(s.op, ast.Add):
                env[s.target.id] = env[s.target.id] + self.ev(s.value, env, mod)
            elif isinstance(s, ast.If):
                self.block(s.body if self.truth(self.ev(s.test, env, mod)) else s.orelse, env, mod, out)
            elif isinstance(s, ast.For):
                for item in list(consume(self.ev(s.iter, env, mod))):
                    self.assign(s.target, item, env, mod)
                    self.block(s.body, env, mod, out)
            elif isinstance(s, ast.Return):
                raise _Return(self.ev(s.value, env, mod) if s.value is not None else None)
            elif isinstance(s, ast.Pass):
                pass
            elif isinstance(s, ast.FunctionDef):
                env[s.name] = Func(self, mod, s, closure=env)        # a nested def sees (the current state of) its definer's variables
            elif isinstance(s, ast.Try):
                # handlers only re-raise with a better message in this code base: the body decides
                self.block(s.body, env, mod, out)
                self.block(s.orelse, env, mod, out)
                self.block(s.finalbody, env, mod, out)
            elif isinstance(s, ast.Raise):
                raise core.AnalysisError(f"construction code raises: {ast.unparse(s)[:100]}")
            else:
                raise core.AnalysisError(f"construction code uses unsupported statement {type(s).__name__}: {ast.unparse(s)[:80]}")

    def assign(self, t, v, env, mod):
        if isinstance(t, ast.Name):
            env[t.id] = v
        elif isinstance(t, (ast.Tuple, ast.List)):
            vals = list(v)
            if len(vals) != len(t.elts):
                raise core.AnalysisError("unpacking length mismatch in construction code")
            for e, x in zip(t.elts, vals):
                self.assign(e, x, env, mod)
        elif isinstance(t, ast.Attribute):
            setattr(self.ev(t.value, env, mod), t.attr, v)
        elif isinstance(t, ast.Subscript):
            self.ev(t.value, env, mod)[self.ev(t.slice, env, mod)] = v
        else:
            raise core.AnalysisError(f"unsupported assignment target {ast.unparse(t)}")

    def truth(self, v):
        return bool(v)

    # -------- expressions
    def ev(self, n, env, mod):
        m = getattr(self, "e_" + type(n).__name__, None)
        if m is None:
            raise core.AnalysisError(f"construction code uses unsupported expression {type(n).__name__}: {ast.unparse(n)[:80]}")
        return m(n, env, mod)

    def e_Constant(self, n, env, mod):
        return n.value

    def e_Name(self, n, env, mod):
        if n.id in env:
            return env[n.id]
        if n.id in self.user_natives:
            return self.user_natives[n.id]
        if n.id in self.funcs.get(mod, {}):
            return Func(self, mod, self.funcs[mod][n.id])
        if n.id in self.aliases:
            return ModuleProxy(self, self.aliases[n.id])
        if n.id in self.classes.get(mod, {}):
            return ClassRef(self, mod, self.classes[mod][n.id])
        for m in self.modules:
            if m != mod and m not in ("cpp",) and n.id in self.classes.get(m, {}):
                return ClassRef(self, m, self.classes[m][n.id])           # `from formak.ast_tools import Arg, ...`
        imp = self.imported(mod).get(n.id)
        if imp is not None:
            m2, nm = imp
            if nm in self.funcs.get(m2, {}):
                return Func(self, m2, self.funcs[m2][nm])                 # `from formak.common import helper`
            if nm in self.assigns.get(m2, {}):
                key = (m2, nm)
                if key not in self._modvals:
                    self._modvals[key] = self.ev(self.assigns[m2][nm], {}, m2)
                return self._modvals[key]
        if n.id in self.assigns.get(mod, {}):
            key = (mod, n.id)
            if key not in self._modvals:
                self._modvals[key] = self.ev(self.assigns[mod][n.id], {}, mod)
            return self._modvals[key]
        if n.id in self.natives:
            return self.natives[n.id]
        if n.id in BUILTINS:
            return BUILTINS[n.id]
        if n.id in ("None", "True", "False"):
            return {"None": None, "True": True, "False": False}[n.id]
        raise core.AnalysisError(f"construction code refers to unknown name `{n.id}` in {mod}")

    def e_Attribute(self, n, env, mod):
        b = self.ev(n.value, env, mod)
        if isinstance(b, ModuleProxy):
            fn = self.funcs.get(b.name, {}).get(n.attr)
            if fn is None:
                raise core.AnalysisError(f"anchor missing: {b.name}.{n.attr}")
            return Func(self, b.name, fn)
        try:
            return getattr(b, n.attr)
        except AttributeError:
            raise core.AnalysisError(f"construction code reads `{ast.unparse(n)}`: the stand-in {type(b).__name__} has no attribute {n.attr}")

    def e_Call(self, n, env, mod):
        f = self.ev(n.func, env, mod)
        args = []
        for a in n.args:
            if isinstance(a, ast.Starred):
                args.extend(list(consume(self.ev(a.value, env, mod))))
            else:
                args.append(self.ev(a, env, mod))
        kwargs = {}
        for k in n.keywords:
            if k.arg is None:
                kwargs.update(self.ev(k.value, env, mod))
            else:
                kwargs[k.arg] = self.ev(k.value, env, mod)
        if isinstance(f, Func):
            return f.ev.call(f, args, kwargs)        # a method of an object built by another evaluator keeps that evaluator's stand-ins
        # a builtin / a method of a builtin container or string that is handed a generator iterates it
        owner = getattr(f, "__self__", None)
        if (any(f is b for b in BUILTINS.values()) and f is not _next) or isinstance(owner, (str, list, dict, set, tuple)):
            args = [consume(a) for a in args]
        try:
            return f(*args, **kwargs)
        except core.AnalysisError:
            raise
        except Exception as e:
            raise core.AnalysisError(f"evaluating `{ast.unparse(n)[:80]}` failed: {type(e).__name__}: {e}")

    def e_JoinedStr(self, n, env, mod):
        out = ""
        for v in n.values:
            if isinstance(v, ast.Constant):
                out += v.value
            else:
                val = self.ev(v.value, env, mod)
                spec = self.ev(v.format_spec, env, mod) if v.format_spec is not None else ""
                if v.conversion == 114:
                    val = repr(val)
                elif v.conversion == 115:
                    val = str(val)
                out += format(val, spec)
        return out

    def e_FormattedValue(self, n, env, mod):
        return format(self.ev(n.value, env, mod), "")

    def e_BinOp(self, n, env, mod):
        l, r = self.ev(n.left, env, mod), self.ev(n.right, env, mod)
        try:
            if isinstance(n.op, ast.Add):
                return l + r
            if isinstance(n.op, ast.Mod):
                return l % r
            if isinstance(n.op, ast.Mult):
                return l * r
            if isinstance(n.op, ast.Sub):
                return l - r
        except Exception as e:
            raise core.AnalysisError(f"evaluating `{ast.unparse(n)[:80]}` failed: {e}")
        raise core.AnalysisError(f"unsupported operator in construction code: {ast.unparse(n)[:80]}")

    def e_Compare(self, n, env, mod):
        l = self.ev(n.left, env, mod)
        for op, c in zip(n.ops, n.comparators):
            r = self.ev(c, env, mod)
            ok = {ast.Eq: lambda: l == r, ast.NotEq: lambda: l != r, ast.Gt: lambda: l > r, ast.GtE: lambda: l >= r,
                  ast.Lt: lambda: l < r, ast.LtE: lambda: l <= r, ast.Is: lambda: l is r, ast.IsNot: lambda: l is not r,
                  ast.In: lambda: l in r, ast.NotIn: lambda: l not in r}[type(op)]()
            if not ok:
                return False
            l = r
        return True

    def e_BoolOp(self, n, env, mod):
        if isinstance(n.op, ast.And):
            v = True
            for x in n.values:
                v = self.ev(x, env, mod)
                if not v:
                    return v
            return v
        v = False
        for x in n.values:
            v = self.ev(x, env, mod)
            if v:
                return v
        return v

    def e_UnaryOp(self, n, env, mod):
        v = self.ev(n.operand, env, mod)
        if isinstance(n.op, ast.Not):
            return not v
        if isinstance(n.op, ast.USub):
            return -v
        raise core.AnalysisError("unsupported unary operator")

    def e_IfExp(self, n, env, mod):
        return self.ev(n.body if self.truth(self.ev(n.test, env, mod)) else n.orelse, env, mod)

    def e_List(self, n, env, mod):
        out = []
        for e in n.elts:
            if isinstance(e, ast.Starred):
                out.extend(self.ev(e.value, env, mod))
            else:
                out.append(self.ev(e, env, mod))
        return out

    def e_Tuple(self, n, env, mod):
        return tuple(self.e_List(n, env, mod))

    def e_Dict(self, n, env, mod):
        return {self.ev(k, env, mod): self.ev(v, env, mod) for k, v in zip(n.keys, n.values)}

    def e_Subscript(self, n, env, mod):
        b = self.ev(n.value, env, mod)
        if isinstance(n.slice, ast.Slice):
            lo = self.ev(n.slice.lower, env, mod) if n.slice.lower else None
            hi = self.ev(n.slice.upper, env, mod) if n.slice.upper else None
            st = self.ev(n.slice.step, env, mod) if n.slice.step else None
            return b[lo:hi:st]
        try:
            return b[self.ev(n.slice, env, mod)]
        except core.AnalysisError:
            raise
        except Exception as e:
            raise core.AnalysisError(f"evaluating `{ast.unparse(n)[:80]}` failed: {type(e).__name__}: {e}")

    def _comp(self, n, env, mod, gens, acc, elt):
        if not gens:
            acc.append(elt(env))
            return
        g = gens[0]
        for item in list(consume(self.ev(g.iter, env, mod))):
            e2 = dict(env)
            self.assign(g.target, item, e2, mod)
            if all(self.truth(self.ev(c, e2, mod)) for c in g.ifs):
                self._comp(n, e2, mod, gens[1:], acc, elt)

    def e_ListComp(self, n, env, mod):
        acc = []
        self._comp(n, env, mod, n.generators, acc, lambda e: self.ev(n.elt, e, mod))
        return acc

    def e_GeneratorExp(self, n, env, mod):
        return GenList(self.e_ListComp(n, env, mod), f"generator expression at line {getattr(n, 'lineno', '?')}")

    def e_DictComp(self, n, env, mod):
        acc = []
        self._comp(n, env, mod, n.generators, acc, lambda e: (self.ev(n.key, e, mod), self.ev(n.value, e, mod)))
        return dict(acc)

    def e_Lambda(self, n, env, mod):
        def f(*args):
            e2 = dict(env)
            for a, v in zip(n.args.args, args):
                e2[a.arg] = v
            return self.ev(n.body, e2, mod)
        return f


# ------------------------------------------------------------------------------------------ printer (mirror of ast_tools)
def render_args(args):
    return ", ".join(f"{a.type_} {a.name}" for a in args or [])


def cpp_print(node, out: List[str], templates, classname=None):
    k = node.kind
    if k == "Namespace":
        out.append(f"namespace {node.name} {{")
        for c in node.body:
            cpp_print(c, out, templates)
        out.append(f"}} // namespace {node.name}")
    elif k == "ClassDef":
        bases = (": " + ", ".join(f"public {b}" for b in node.bases)) if node.bases else ""
        out.append(f"{node.tag} {node.name} {bases} {{")
        for c in node.body:
            cpp_print(c, out, templates, classname=node.name)
        out.append("};")
    elif k == "EnumClassDef":
        out.append(f"enum class {node.name} {{ " + " ".join(f"{m}," for m in node.members) + " };")
    elif k == "ForwardClassDeclaration":
        out.append(f"{node.tag} {node.name};")
    elif k == "MemberDeclaration":
        out.append(f"{node.type_} {node.name}" + (f" = {node.value}" if node.value is not None else "") + ";")
    elif k == "UsingDeclaration":
        out.append(f"using {node.name} = {node.type_};")
    elif k == "ConstructorDeclaration":
        out.append(f"{classname}({render_args(node.args)});")
    elif k == "ConstructorDefinition":
        il = ", ".join(f"{a}({b})" for a, b in node.initializer_list or [])
        out.append(f"{node.classname}::{node.classname}({render_args(node.args)})" + (f" : {il}" if il else "") + " {}")
    elif k == "FunctionDef":
        mod = f" {node.modifier}" if node.modifier else ""
        out.append(f"{node.return_type} {node.name}({render_args(node.args)}){mod} {{")
        for c in node.body:
            cpp_print(c, out, templates, classname=classname)
        out.append("}")
    elif k == "FunctionDeclaration":
        mod = f" {node.modifier}" if node.modifier else ""
        out.append(f"{node.return_type} {node.name}({render_args(node.args)}){mod};")
    elif k == "Return":
        out.append(f"return {node.value};")
    elif k == "Templated":
        out.append("template <" + render_args(node.template_args) + ">")
        cpp_print(node.templated, out, templates, classname=classname)
    elif k == "FromFileTemplate":
        out.append(f"// ---- begin template {node.name} {node.inserts}")
        out.extend(templates(node.name, node.inserts or {}).split("\n"))
        out.append(f"// ---- end template {node.name}")
    elif k == "Public":
        out.append("public:")
    elif k == "Private":
        out.append("private:")
    elif k == "Escape":
        out.append(node.string)
    elif k == "Text":
        out.append(node.text)
    else:
        raise core.AnalysisError(f"printer: unknown node kind {k}")


# ------------------------------------------------------------------------------------------ static jinja
def render_template(text: str, flags: Dict[str, Any]) -> str:
    """the Jinja subset the repo's templates use (or may reasonably grow into): {% if [not] name %} / {% else %} / {% endif %},
    {% macro name(params) %} ... {% endmacro %}, {{ name }} and {{ macro("literal", ...) }}, with the `-` whitespace control.  Anything else is
    reported as outside the subset."""
    import re
    macros: Dict[str, Any] = {}

    def strip_ws(parts_before: List[str], lstrip_next: List[bool], m):
        if m.group(0).startswith(("{%-", "{{-")) and parts_before:
            parts_before[-1] = parts_before[-1].rstrip()
        lstrip_next[0] = m.group(0).endswith(("-%}", "-}}"))

    # pass 1: lift macro definitions out
    def lift(src: str) -> str:
        out, pos = [], 0
        lnext = [False]
        it = list(re.finditer(r"\{%-?\s*(.*?)\s*-?%\}", src))
        i = 0
        while i < len(it):
            m = it[i]
            tag = m.group(1)
            if tag.startswith("macro "):
                mm = re.fullmatch(r"macro\s+([A-Za-z_]\w*)\s*\((.*?)\)", tag)
                if not mm:
                    raise core.AnalysisError(f"template tag `{{% {tag} %}}` is outside the supported subset")
                depth, j = 1, i + 1
                while j < len(it):
                    if it[j].group(1).startswith("macro "):
                        depth += 1
                    elif it[j].group(1) == "endmacro":
                        depth -= 1
                        if depth == 0:
                            break
                    j += 1
                if j >= len(it):
                    raise core.AnalysisError("template: unterminated macro")
                chunk = src[pos:m.start()]
                if lnext[0]:
                    chunk = chunk.lstrip()
                if m.group(0).startswith("{%-"):
                    chunk = chunk.rstrip()
                out.append(chunk)
                body = src[m.end():it[j].start()]
                if m.group(0).endswith("-%}"):
                    body = body.lstrip()
                if it[j].group(0).startswith("{%-"):
                    body = body.rstrip()
                params = [p_.strip() for p_ in mm.group(2).split(",") if p_.strip()]
                if any(not re.fullmatch(r"[A-Za-z_]\w*", p_) for p_ in params):
                    raise core.AnalysisError(f"template macro `{mm.group(1)}` has parameters outside the supported subset")
                macros[mm.group(1)] = (params, body)
                pos = it[j].end()
                lnext[0] = it[j].group(0).endswith("-%}")
                i = j + 1
                continue
            i += 1
        tail = src[pos:]
        if lnext[0]:
            tail = tail.lstrip()
        out.append(tail)
        return "".join(out)

    def render(src: str, env: Dict[str, Any], depth=0) -> str:
        if depth > 8:
            raise core.AnalysisError("template: macro recursion too deep")
        out: List[str] = []
        stack = []
        pos = 0
        active = True
        lnext = [False]
        for m in re.finditer(r"\{%-?\s*(.*?)\s*-?%\}|\{\{-?\s*(.*?)\s*-?\}\}", src):
            chunk = src[pos:m.start()]
            if lnext[0]:
                chunk = chunk.lstrip()
            if active:
                out.append(chunk)
                strip_ws(out, lnext, m)
            else:
                lnext[0] = m.group(0).endswith(("-%}", "-}}"))
            pos = m.end()
            if m.group(2) is not None:
                if not active:
                    continue
                expr = m.group(2)
                if re.fullmatch(r"[A-Za-z_]\w*", expr):
                    if expr not in env:
                        raise core.AnalysisError(f"template variable `{expr}` is not supplied")
                    out.append(str(env[expr]))
                    continue
                cm = re.fullmatch(r"([A-Za-z_]\w*)\s*\((.*)\)", expr)
                if cm and cm.group(1) in macros:
                    params, body = macros[cm.group(1)]
                    args = []
                    for a_ in re.findall(r'"((?:[^"\\\\]|\\\\.)*)"|\'((?:[^\'\\\\]|\\\\.)*)\'|([A-Za-z_]\w*)|(-?\d+)', cm.group(2)):
                        if a_[2]:
                            if a_[2] not in env:
                                raise core.AnalysisError(f"template variable `{a_[2]}` is not supplied")
                            args.append(env[a_[2]])
                        elif a_[3]:
                            args.append(int(a_[3]))
                        else:
                            args.append(a_[0] or a_[1])
                    if len(args) != len(params):
                        raise core.AnalysisError(f"template macro `{cm.group(1)}` called with {len(args)} argument(s) for {len(params)}")
                    out.append(render(body, dict(env, **dict(zip(params, args))), depth + 1))
                    continue
                raise core.AnalysisError(f"template expression `{{{{ {expr} }}}}` is outside the supported subset")
            tag = m.group(1)
            if tag.startswith("if "):
                name = tag[3:].strip()
                neg = False
                if name.startswith("not "):
                    neg, name = True, name[4:].strip()
                if not re.fullmatch(r"[A-Za-z_]\w*", name):
                    raise core.AnalysisError(f"template condition `{tag}` is outside the supported subset")
                if name not in env:
                    raise core.AnalysisError(f"template flag `{name}` is not supplied by FromFileTemplate(inserts=...)")
                val = bool(env[name]) != neg
                stack.append((active, val))
                active = active and val
            elif tag.startswith("set "):
                sm = re.fullmatch(r"set\s+([A-Za-z_]\w*)\s*=\s*(.+)", tag)
                if not sm:
                    raise core.AnalysisError(f"template tag `{{% {tag} %}}` is outside the supported subset")
                if active:
                    import ast as _ast

                    def _tv(e):
                        if isinstance(e, _ast.Constant) and isinstance(e.value, (str, int)):
                            return e.value
                        if isinstance(e, _ast.Name):
                            if e.id not in env:
                                raise core.AnalysisError(f"template variable `{e.id}` is not supplied")
                            return env[e.id]
                        if isinstance(e, _ast.BinOp) and isinstance(e.op, (_ast.Mult, _ast.Add)):
                            l_, r_ = _tv(e.left), _tv(e.right)
                            return l_ * r_ if isinstance(e.op, _ast.Mult) else l_ + r_
                        raise core.AnalysisError(f"template expression `{sm.group(2)}` is outside the supported subset")
                    try:
                        env = dict(env)
                        env[sm.group(1)] = _tv(_ast.parse(sm.group(2), mode="eval").body)
                    except SyntaxError:
                        raise core.AnalysisError(f"template expression `{sm.group(2)}` is outside the supported subset")
            elif tag == "else":
                if not stack:
                    raise core.AnalysisError("template: else without if")
                outer, val = stack[-1]
                stack[-1] = (outer, not val)
                active = outer and (not val)
            elif tag == "endif":
                if not stack:
                    raise core.AnalysisError("template: endif without if")
                outer, _ = stack.pop()
                active = outer
            else:
                raise core.AnalysisError(f"template tag `{{% {tag} %}}` is outside the supported subset")
        if stack:
            raise core.AnalysisError("template: unterminated if")
        tail = src[pos:]
        if lnext[0]:
            tail = tail.lstrip()
        out.append(tail)
        return "".join(out)
    # {# comments #} (with whitespace control) vanish
    def uncomment(src: str) -> str:
        out, pos = [], 0
        for m in re.finditer(r"\{#-?.*?-?#\}", src, flags=re.S):
            chunk = src[pos:m.start()]
            if m.group(0).startswith("{#-"):
                chunk = chunk.rstrip()
            out.append(chunk)
            pos = m.end()
            if m.group(0).endswith("-#}"):
                rest = src[pos:]
                pos += len(rest) - len(rest.lstrip())
        out.append(src[pos:])
        return "".join(out)
    return render(lift(uncomment(text)), dict(flags))
