"""Abstract values for the layout / binding evaluator (prototype)."""
from __future__ import annotations

from dataclasses import dataclass, field
from typing import Any, Optional, Tuple


class V:
    """Base class of abstract values."""


@dataclass(frozen=True)
class Unknown(V):
    why: str = ""

    def __repr__(self):
        return f"?({self.why})" if self.why else "?"


@dataclass(frozen=True)
class Const(V):
    value: Any


@dataclass(frozen=True)
class ModelV(V):
    """The user's symbolic model (ui.Model)."""


@dataclass(frozen=True)
class ConfigV(V):
    pass


@dataclass(frozen=True)
class SymV(V):
    """One symbol / key of a role (e.g. model.dt, or a loop element)."""
    role: Any


@dataclass(frozen=True)
class CollV(V):
    """Unordered user container of symbols of one role, as declared."""
    role: Any
    coerced: Optional[str] = None  # 'set' / 'list' once wrapped


@dataclass(frozen=True)
class MapV(V):
    """User-supplied dict. kind in: state_model, sensor_models, sensor,
    sensor_noises, noise, process_noise, calibration_map."""
    kind: str
    keyrole: Any
    sensor: Any = None


# ---- layouts ---------------------------------------------------------------
# segment: ('DT',) | ('SORT', role, key) | ('PRIME', seg) | ('REV', seg...) | ('UNORD', role)


@dataclass(frozen=True)
class Layout:
    segs: Tuple[Any, ...]

    def __add__(self, other: "Layout") -> "Layout":
        return Layout(self.segs + other.segs)

    def prime(self) -> "Layout":
        return Layout(tuple(("PRIME", s) for s in self.segs))

    def unprime(self) -> "Layout":
        return Layout(tuple(s[1] if s[0] == "PRIME" else s for s in self.segs))

    def size(self) -> "SizeV":
        total = SizeV.const(0)
        for s in self.segs:
            total = total + seg_size(s)
        return total

    def ordered(self) -> bool:
        return all(_seg_ordered(s) for s in self.segs)

    def __repr__(self):
        return "[" + " + ".join(_seg_repr(s) for s in self.segs) + "]"


def _seg_ordered(s):
    if s[0] == "UNORD":
        return False
    if s[0] == "PRIME":
        return _seg_ordered(s[1])
    return True


def _seg_repr(s):
    if s[0] == "DT":
        return "DT"
    if s[0] == "ONE":
        return "1"
    if s[0] == "SORT":
        return f"Sorted({_role_repr(s[1])},{s[2]})"
    if s[0] == "PRIME":
        return _seg_repr(s[1]) + "'"
    if s[0] == "UNORD":
        return f"Unordered({_role_repr(s[1])})"
    if s[0] == "REV":
        return f"Reversed({_seg_repr(s[1])})"
    return repr(s)


def _role_repr(r):
    if isinstance(r, tuple):
        return f"{r[0]}({r[1]})"
    return str(r)


def seg_size(s) -> "SizeV":
    if s[0] in ("DT", "ONE"):
        return SizeV.const(1)
    if s[0] in ("SORT", "UNORD"):
        if isinstance(s[1], tuple) and s[1] and s[1][0] == "UNION":
            return SizeV.of(s[1])
        return SizeV.of(s[1])
    if s[0] in ("PRIME", "REV"):
        return seg_size(s[1])
    raise ValueError(s)


ONE = Layout((("ONE",),))  # a singleton axis (column vectors)


@dataclass(frozen=True)
class SizeV(V):
    terms: Tuple[Tuple[Any, int], ...]  # sorted ((role, coef), ...)
    k: int = 0

    @staticmethod
    def const(k: int) -> "SizeV":
        return SizeV((), k)

    @staticmethod
    def of(role) -> "SizeV":
        return SizeV(((role, 1),), 0)

    def __add__(self, o: "SizeV") -> "SizeV":
        d = dict(self.terms)
        for r, c in o.terms:
            d[r] = d.get(r, 0) + c
        return SizeV(tuple(sorted(((r, c) for r, c in d.items() if c), key=repr)), self.k + o.k)

    def __repr__(self):
        parts = [(f"{c}*" if c != 1 else "") + f"|{_role_repr(r)}|" for r, c in self.terms]
        if self.k or not parts:
            parts.append(str(self.k))
        return "+".join(parts)


@dataclass(frozen=True)
class SeqV(V):
    """Ordered python sequence whose positions are indexed by `layout`.
    `elem` describes the element at a position (free-form tag)."""
    layout: Layout
    elem: Any = "sym"


@dataclass(frozen=True)
class UnordSeqV(V):
    role: Any
    elem: Any = "sym"


@dataclass(frozen=True)
class NCls(V):
    kind: str  # 'vec' | 'cov'
    layout: Layout
    name: str = ""


@dataclass(frozen=True)
class NInst(V):
    cls: NCls
    origin: str = ""
    arr: Any = field(default=None, compare=False)   # the ArrV this instance was built from (from_data)


@dataclass
class ArrV(V):
    """numpy array; axes carry a Layout, or a bare size (Dim) until refined."""
    rows: Any
    cols: Any
    origin: str = ""
    form: Any = None     # matform.MatForm normal form of the value, when derivable
    touched: bool = field(default=False, compare=False)    # some element store into this array was seen

    def __repr__(self):
        return f"Arr({self.rows} x {self.cols})"


@dataclass(frozen=True)
class Dim:
    size: Any  # SizeV | Unknown

    def __repr__(self):
        return f"Dim({self.size})"


@dataclass(frozen=True)
class SymMatV(V):
    rows: Layout
    cols: Any  # Layout | ONE


@dataclass(frozen=True)
class FlatV(V):
    rows: Layout
    cols: Layout


@dataclass(frozen=True)
class BlockV(V):
    formals: Any  # Layout | Unknown
    outputs: Any  # Layout | FlatV | Unknown
    site: str = ""


@dataclass
class ObjV(V):
    cls: str
    attrs: dict = field(default_factory=dict)

    def __repr__(self):
        return f"<{self.cls}>"


@dataclass(frozen=True)
class FamV(V):
    """dict keyed by sensor key; `value` is generic in the symbolic key."""
    value: Any


@dataclass(frozen=True)
class IdxV(V):
    loop: int
    layout: Any  # Layout | Dim
    offset: int = 0


@dataclass(frozen=True)
class ElemV(V):
    loop: int
    layout: Layout
    elem: Any = "sym"


@dataclass(frozen=True)
class TupleV(V):
    items: Tuple[Any, ...]
    names: Tuple[str, ...] = ()      # field names when built by a namedtuple class
    ntname: str = ""


@dataclass(frozen=True)
class NTClsV(V):
    """a collections.namedtuple class"""
    name: str
    fields: Tuple[str, ...]


@dataclass(frozen=True)
class ScalV(V):
    """scalar with a commutative normal form (matform.Scalar) and/or the 1x1 matrix form it was read from"""
    s: Any = None
    m: Any = None


@dataclass(frozen=True)
class CmpV(V):
    op: str
    left: Any
    right: Any


@dataclass(frozen=True)
class KwMapV(V):
    """dict built as {str(Elem): value for ... in Seq(layout)}"""
    layout: Layout


@dataclass(frozen=True)
class LinIdx(V):
    """row*stride + col"""
    row: IdxV
    stride: Any
    col: IdxV


@dataclass(frozen=True)
class FuncV(V):
    node: Any
    module: str
    self_obj: Any = None
    cls: Optional[str] = None


@dataclass(frozen=True)
class ClassV(V):
    module: str
    name: str


@dataclass(frozen=True)
class ModuleV(V):
    name: str
