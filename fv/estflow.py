"""Estimate-flow analysis of the runtime's step and tick functions (C10 CHAIN, C11 FLOW).

A typestate / value-flow evaluation over the mini-IR of fv/rtmodel.py.  Abstract values

    Est(comp, fresh, origin)   a state / covariance / (state, covariance)-pair value; `fresh` = it is the newest estimate on this path
    Sav({field: value})        a namedtuple-like record (StateAndVariance / StateAndCovariance), field order as declared
    Tup([values])              a tuple / brace-init list
    TimeV(text)                a time value (the IR text of its expression)
    None                       anything else

Every call of the wrapped filter's process_model / sensor_model (and, in tick mode, of the step function) checks that the estimate it
is handed is the newest one, component by component (state where the callee's parameter is the state, covariance where it is the
covariance), then makes every older estimate value stale and returns fresh ones.  Loops run their body twice and join with the
zero-iteration state (fresh = fresh on every path); conditionals join both arms.
"""
from __future__ import annotations

import ast
from dataclasses import dataclass
from typing import Any, Dict, List, Optional

from . import cppast
from .rtmodel import show2


@dataclass
class Est:
    comp: str
    fresh: bool
    origin: str

    def __repr__(self):
        return f"{self.comp}[{'newest' if self.fresh else 'STALE'} from {self.origin}]"


@dataclass
class Sav:
    fields: Dict[str, Any]

    def __repr__(self):
        return "record(" + ", ".join(f"{k}={v!r}" for k, v in self.fields.items()) + ")"


@dataclass
class Tup:
    items: List[Any]

    def __repr__(self):
        return "(" + ", ".join(repr(i) for i in self.items) + ")"


@dataclass
class TimeV:
    text: str

    def __repr__(self):
        return f"time[{self.text}]"


def stale(v):
    if isinstance(v, Est):
        return Est(v.comp, False, v.origin)
    if isinstance(v, Sav):
        return Sav({k: stale(x) for k, x in v.fields.items()})
    if isinstance(v, Tup):
        return Tup([stale(x) for x in v.items])
    return v


def join(a, b):
    if isinstance(a, Est) and isinstance(b, Est) and a.comp == b.comp:
        return Est(a.comp, a.fresh and b.fresh, a.origin if a.origin == b.origin else f"{a.origin}|{b.origin}")
    if isinstance(a, Sav) and isinstance(b, Sav) and list(a.fields) == list(b.fields):
        return Sav({k: join(a.fields[k], b.fields[k]) for k in a.fields})
    if isinstance(a, Tup) and isinstance(b, Tup) and len(a.items) == len(b.items):
        return Tup([join(x, y) for x, y in zip(a.items, b.items)])
    if isinstance(a, TimeV) and isinstance(b, TimeV) and a.text == b.text:
        return a
    return None


def namedtuples(mod: ast.Module) -> Dict[str, List[str]]:
    out = {}
    for s in mod.body:
        if isinstance(s, ast.Assign) and len(s.targets) == 1 and isinstance(s.targets[0], ast.Name) and isinstance(s.value, ast.Call) \
                and ast.unparse(s.value.func).split(".")[-1] == "namedtuple" and len(s.value.args) >= 2:
            f = s.value.args[1]
            if isinstance(f, (ast.List, ast.Tuple)) and all(isinstance(e, ast.Constant) for e in f.elts):
                out[s.targets[0].id] = [e.value for e in f.elts]
            elif isinstance(f, ast.Constant) and isinstance(f.value, str):
                out[s.targets[0].id] = f.value.replace(",", " ").split()
    return out


class Flow:
    def __init__(self, lang, held: Dict[str, str], records: Dict[str, List[str]], *, impl="@_impl", predict_roles=None, update_roles=None,
                 predict_ret=None, update_ret=None, step_name=None, step_ret=None, step_params=None, control_param=None, time_params=()):
        """held: show2-text of a held location -> component ("state" | "cov" | "pair" | "time" | "whole")
        *_roles: list of parameter names of the callee in positional order; component per name via COMP
        *_ret: function() -> fresh abstract value returned by the callee"""
        self.lang = lang
        self.held = held
        self.records = records
        self.impl = impl
        self.predict_roles, self.update_roles = predict_roles, update_roles
        self.predict_ret, self.update_ret = predict_ret, update_ret
        self.step_name, self.step_ret, self.step_params = step_name, step_ret, step_params
        self.control_param = control_param
        self.time_params = set(time_params)
        self.env: Dict[str, Any] = {}
        self.heldv: Dict[str, Any] = {h: (Est(c, True, "held") if c in ("state", "cov", "pair") else
                                          (TimeV("@held") if c == "time" else
                                           Tup([TimeV("@held"), Est("pair", True, "held")]))) for h, c in held.items()}
        self.violations: List[str] = []
        self.problems: List[str] = []
        self.returns: List[Any] = []
        self.calls: List[dict] = []
        self.n = 0

    COMP = {"state": "state", "covariance": "cov", "cov": "cov"}

    # ------------------------------------------------------------ values
    def ev(self, e):
        if not isinstance(e, tuple):
            return None
        k = e[0]
        if k == "ref":
            if e[1] in self.env:
                return self.env[e[1]]
            if e[1] in self.time_params:
                return TimeV(e[1])
            return None
        if k == "field":
            t = show2(e)
            if t in self.heldv:
                return self.heldv[t]
            base = self.ev(e[1])
            if isinstance(base, Sav) and e[2] in base.fields:
                return base.fields[e[2]]
            if isinstance(base, Tup) and self.lang == "cpp":
                # State{currentTime, state}
                if e[2] == "currentTime" and base.items:
                    return base.items[0]
                if e[2] == "state" and len(base.items) > 1:
                    return base.items[1]
            if e[2] == "timestamp":
                return TimeV(show2(e))
            return None
        if k == "init":
            return Tup([self.ev(x) for x in e[2]])
        if k == "call":
            f = e[1] if isinstance(e[1], str) else show2(e[1])
            f = f.split(".")[-1].split("::")[-1]
            if f in self.records:
                names = self.records[f]
                vals: Dict[str, Any] = {}
                pos = [a for a in e[2] if a[0] != "kw"]
                for n, a in zip(names, pos):
                    vals[n] = self.ev(a)
                for a in e[2]:
                    if a[0] == "kw" and a[1] in names:
                        vals[a[1]] = self.ev(a[2])
                return Sav({n: vals.get(n) for n in names})
            for a in e[2]:
                self.ev(a[2] if a[0] == "kw" else a)
            return None
        if k == "mcall":
            return self.call(e)
        if k == "cond":
            self.ev(e[1])
            return join(self.ev(e[2]), self.ev(e[3]))
        if k in ("bin", "un"):
            for x in e[2:]:
                self.ev(x)
            return None
        return None

    def describe(self, v):
        return repr(v) if v is not None else "something that is not an estimate"

    def check_arg(self, what, role, a_ir, v, where):
        comp = self.COMP.get(role)
        if comp is None:
            return
        want = comp if self.lang == "py" else "pair"
        if not isinstance(v, Est) or v.comp != want:
            self.violations.append(f"{where}: the {role} parameter of {what} is given `{show2(a_ir)}` = {self.describe(v)}")
        elif not v.fresh:
            self.violations.append(f"{where}: the {role} parameter of {what} is given `{show2(a_ir)}`, a stale estimate ({v.origin}): "
                                   f"the result of the step(s) taken since is dropped")

    def bind(self, roles, args):
        """[(role, ir)] for positional + keyword arguments"""
        out = []
        pos = [a for a in args if a[0] != "kw"]
        for r, a in zip(roles, pos):
            out.append((r, a))
        for a in args:
            if a[0] == "kw" and a[1] is not None:
                out.append((a[1], a[2]))
        return out

    def call(self, e):
        recv, name, args = e[1], e[2], e[3]
        rt = show2(recv)
        for a in args:
            # evaluate nested calls first
            x = a[2] if a[0] == "kw" else a
            if isinstance(x, tuple) and x[0] == "mcall":
                pass
        if name == "process_model" and rt == self.impl and self.predict_roles is not None:
            self.n += 1
            where = f"process_model call #{self.n}"
            b = self.bind(self.predict_roles, args)
            seen = set()
            for role, a in b:
                seen.add(role)
                self.check_arg("process_model", role, a, self.ev(a), where)
                if role == "control" and self.control_param is not None and a != ("ref", self.control_param):
                    self.violations.append(f"{where}: control is `{show2(a)}`, not the `{self.control_param}` the step function was given")
            if self.lang == "py":
                for need in ("state", "covariance"):
                    if need in self.predict_roles and need not in seen:
                        self.violations.append(f"{where}: no {need} argument")
                if self.control_param is not None and "control" in self.predict_roles and "control" not in seen:
                    self.violations.append(f"{where}: the control is not passed on to process_model")
            else:
                pos = [a for a in args if a[0] != "kw"]
                if len(pos) < 2:
                    self.violations.append(f"{where}: no state argument")
                else:
                    self.check_arg("process_model", "state", pos[1], self.ev(pos[1]), where)
                if self.control_param is not None and ("ref", self.control_param) not in pos:
                    self.violations.append(f"{where}: the control is not passed on to process_model")
            self.calls.append({"kind": "PREDICT", "args": [show2(a) for a in args]})
            self.make_stale()
            return self.predict_ret(f"process_model#{self.n}")
        if name == "sensor_model" and self.update_roles is not None:
            self.n += 1
            where = f"sensor_model call #{self.n}"
            b = self.bind(self.update_roles, args)
            seen = {}
            for role, a in b:
                seen[role] = a
                self.check_arg("sensor_model", role, a, self.ev(a), where)
            self.calls.append({"kind": "UPDATE", "args": {r: show2(a) for r, a in b}, "ir": dict(b)})
            for need in self.update_roles:
                if need not in seen:
                    self.violations.append(f"{where}: no {need} argument")
            self.make_stale()
            return self.update_ret(f"sensor_model#{self.n}")
        if name == self.step_name and recv == ("this",) and self.step_ret is not None:
            self.n += 1
            b = self.bind(self.step_params, args)
            d = dict(b)
            tgt = d.get(self.step_params[0])
            if self.control_param is not None and "control" in self.step_params:
                c = d.get("control")
                if c != ("ref", self.control_param):
                    self.violations.append(f"step call #{self.n}: control is `{show2(c) if c else None}`, not the tick's `{self.control_param}`")
            self.calls.append({"kind": "STEP", "target": show2(tgt) if tgt else None})
            # the step function reads the held estimate (C10 CHAIN) and writes nothing (C10 READ-ONLY): its result is the newest estimate
            for h, v in self.heldv.items():
                if isinstance(v, Est) and not v.fresh:
                    self.violations.append(f"step call #{self.n}: the held {h} is stale ({v.origin}) when the estimate is propagated: "
                                           f"a newer estimate was computed but not held")
            self.make_stale()
            return self.step_ret(f"step#{self.n}", show2(tgt) if tgt else "?")
        for a in args:
            self.ev(a[2] if a[0] == "kw" else a)
        return None

    def make_stale(self):
        self.env = {k: stale(v) for k, v in self.env.items()}
        self.heldv = {k: stale(v) for k, v in self.heldv.items()}

    # ------------------------------------------------------------ statements
    def store(self, t, v):
        if t[0] == "ref":
            self.env[t[1]] = v
            return
        if t[0] == "init":
            items = None
            if isinstance(v, Tup):
                items = v.items
            elif isinstance(v, Sav):
                items = list(v.fields.values())
            if items is None or len(items) != len(t[2]):
                for x in t[2]:
                    self.store(x, None)
                return
            for x, y in zip(t[2], items):
                self.store(x, y)
            return
        txt = show2(t)
        if txt in self.held:
            comp = self.held[txt]
            ok = (isinstance(v, Est) and v.comp == comp) if comp in ("state", "cov", "pair") else \
                 (isinstance(v, TimeV) if comp == "time" else isinstance(v, Tup))
            if not ok:
                self.violations.append(f"the held {txt} is assigned {self.describe(v)}")
            self.heldv[txt] = v
            return
        # a sub-field of a held record (C++: _state.state)
        for h, comp in self.held.items():
            if comp == "whole" and txt == h + ".state":
                cur = self.heldv.get(h)
                tv = cur.items[0] if isinstance(cur, Tup) and cur.items else None
                if not (isinstance(v, Est) and v.comp == "pair"):
                    self.violations.append(f"the held {txt} is assigned {self.describe(v)}")
                self.heldv[h] = Tup([tv, v])
                return

    def snapshot(self):
        return dict(self.env), dict(self.heldv)

    def restore(self, s):
        self.env, self.heldv = dict(s[0]), dict(s[1])

    def join_with(self, s):
        env2, held2 = s
        self.env = {k: join(self.env[k], env2[k]) for k in self.env if k in env2}
        self.heldv = {k: join(self.heldv[k], held2.get(k)) for k in self.heldv}

    def block(self, stmts):
        """returns True when the block always leaves (return / raise)"""
        for s in stmts:
            if self.stmt(s):
                return True
        return False

    def stmt(self, s):
        k = s[0]
        if k == "static_assert":
            return False
        if k == "decl":
            if s[2] is not None:
                self.env[s[1]] = self.ev(s[2])
            return False
        if k in ("assign", "assign_tuple"):
            v = self.ev(s[2])
            self.store(s[1], v)
            return False
        if k == "expr":
            self.ev(s[1])
            return False
        if k == "if":
            _, cond, then, els, cval = s
            if cval is not None:
                return self.block(then if cval else els)
            self.ev(cond)
            s0 = self.snapshot()
            l1 = self.block(then)
            s1 = self.snapshot()
            self.restore(s0)
            l2 = self.block(els)
            if l1 and l2:
                return True
            if l1:
                return False
            if l2:
                self.restore(s1)
                return False
            self.join_with(s1)
            return False
        if k in ("for_range", "for", "rangefor", "while"):
            body = s[-1]
            if k == "rangefor" and isinstance(s[1], tuple) and s[1][0] == "ref":
                self.env[s[1][1]] = None
            s0 = self.snapshot()
            self.loop_entry(s)
            self.block(body)
            self.loop_end(s, 1)
            self.block(body)
            self.loop_end(s, 2)
            self.join_with(s0)
            return False
        if k == "return":
            v = self.ev(s[1]) if s[1] is not None else None
            self.returns.append((s[1], v))
            return True
        if k == "raise":
            return True
        self.problems.append(f"statement kind {k} not understood")
        return False

    def loop_entry(self, s):
        pass

    def loop_end(self, s, n):
        pass


# ---------------------------------------------------------------------------------------------- guard normal form
def _freeze(x):
    if isinstance(x, (list, tuple)):
        return tuple(_freeze(y) for y in x)
    return x


def literals(guard_ir):
    """conjunction of (atom IR, polarity) literals for a list of (condition IR, polarity) path guards; None when a guard is not a conjunction"""
    out = set()
    guard_ir = [(_freeze(c), pol) for c, pol in guard_ir]

    def canon(c, pol):
        if c[0] == "un" and c[1] == "!":
            return canon(c[2], not pol)
        if c[0] == "bin" and c[1] in ("&&", "||"):
            if (c[1] == "&&") == pol:
                a, b = canon(c[2], pol), canon(c[3], pol)
                if a is None or b is None:
                    return None
                return a | b
            return None
        if c[0] == "bin" and c[1] == "is not":
            return {(("bin", "is", c[2], c[3]), not pol)}
        if c[0] == "bin" and c[1] == "not in":
            return {(("bin", "in", c[2], c[3]), not pol)}
        if c[0] == "bin" and c[1] == "!=":
            return {(("bin", "==", c[2], c[3]), not pol)}
        if c[0] == "bin" and c[1] == "<":
            return {(("bin", ">", c[3], c[2]), pol)}
        if c[0] == "bin" and c[1] == "<=":
            return {(("bin", ">", c[2], c[3]), not pol)}
        if c[0] == "bin" and c[1] == ">=":
            return {(("bin", ">", c[3], c[2]), not pol)}
        return {(c, pol)}
    for c, pol in guard_ir:
        r = canon(c, pol)
        if r is None:
            return None
        out |= r
    return frozenset(out)


def is_none_test(lit, name_ir):
    (c, pol) = lit
    return pol and c[0] == "bin" and c[1] in ("is", "==") and ((c[2] == name_ir and c[3] == ("num", "None")) or (c[3] == name_ir and c[2] == ("num", "None")))


def is_positive_test(lit, pred):
    """lit says `x > 0` for an x with pred(x)"""
    (c, pol) = lit
    if pol and pred(c):
        return True                                        # truthiness of a size
    if c[0] != "bin":
        return False
    if c[1] == ">" and pol and pred(c[2]) and c[3] == ("num", "0"):
        return True                                        # x > 0 / 0 < x
    if c[1] == ">" and not pol and pred(c[3]) and c[2] == ("num", "1"):
        return True                                        # x >= 1 == not (1 > x)
    if c[1] == "==" and not pol and ((pred(c[2]) and c[3] == ("num", "0")) or (pred(c[3]) and c[2] == ("num", "0"))):
        return True                                        # x != 0 (sizes are non-negative)
    return False
