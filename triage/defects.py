"""Triage demonstrations for the defects D1..D11 recorded in DESIGN.md section 4.

NOT a check and not registered in MANIFEST.json: this file *executes* formak and
is kept only so that every `fixed:` entry of known_findings.json can be shown
against the real code ("the failing input"), before and after the repair.

usage: /venv/bin/python triage/defects.py [<repo root>]      (default /repo)
       prints one line per defect: D<n> DEFECT-PRESENT | ok  <detail>

numpy 2.x in /venv makes iteration over a named vector yield 1-element arrays,
which numpy refuses to store into a scalar slot; the one-line shim below (an
environment workaround, applied only in this triage process) restores the
numpy-1 behaviour the library was written for.
"""
import os
import subprocess
import sys
import tempfile

repo = os.path.abspath(sys.argv[1] if len(sys.argv) > 1 else "/repo")
sys.path.insert(0, os.path.join(repo, "py"))
os.chdir(repo)

import numpy as np  # noqa: E402
from formak import common, cpp, python, runtime, ui  # noqa: E402

common._NamedArrayBase.__iter__ = lambda self: iter(self.data.flatten().tolist())

out = []


def report(name, present, detail):
    out.append((name, present))
    print(f"{name} {'DEFECT-PRESENT' if present else 'ok'}  {detail}")


def sym(*names):
    return [ui.Symbol(n) for n in names]


dt = ui.Symbol("dt")


def small_ekf(**config):
    a, b, c = sym("a", "b", "c")
    k = ui.Symbol("k")
    model = ui.Model(dt=dt, state={a, b, c}, control=set(), calibration={k},
                     state_model={a: a + dt * b, b: b + dt * c, c: c * k})
    return python.compile_ekf(
        model, {}, {"s": {"r1": a + 2 * b + 3 * c, "r2": 5 * a + 7 * b + 11 * c}},
        {"s": {"r1": 0.5, "r2": 2.0}}, {k: 1.5}, config=python.Config(**config)), (a, b, c, k)


# D1 ---------------------------------------------------------------------------------
try:
    ekf, _ = small_ekf()
    H = ekf.sensor_jacobian("s", ekf.State(a=1.0, b=2.0, c=3.0))
    want = np.array([[1.0, 2.0, 3.0], [5.0, 7.0, 11.0]])
    report("D1", not np.allclose(H, want), f"sensor_jacobian rows {H.tolist()} want {want.tolist()}")
except Exception as e:  # pragma: no cover
    report("D1", True, f"raised {type(e).__name__}: {e}")

# D2 ---------------------------------------------------------------------------------
try:
    ekf, _ = small_ekf(innovation_filtering=3.0)
    y = np.array([[1.0], [2.0]])
    Sinv = np.array([[2.0, 0.5], [0.5, 1.0]])
    got = ekf.remove_innovation(y, Sinv)
    nis = (y.T @ Sinv @ y).item()
    report("D2", bool(got) != (nis > 3.0 * np.sqrt(4) + 2), f"remove_innovation -> {got}, NIS={nis}")
except Exception as e:
    report("D2", True, f"remove_innovation (m=2) raised {type(e).__name__}: {e}")

# D3 ---------------------------------------------------------------------------------
try:
    ekf, _ = small_ekf(innovation_filtering=None)
    st, cov = ekf.State(a=1.0), ekf.Covariance()
    ekf.sensor_model(st, cov, sensor_key="s", sensor_reading=ekf.make_reading("s", r1=1.0, r2=2.0))
    S = ekf.sensor_prediction_uncertainty["s"]
    H = np.array([[1.0, 2.0, 3.0], [5.0, 7.0, 11.0]])
    want = H @ H.T + np.diag([0.5, 2.0])
    report("D3", not np.allclose(S, want), f"S={S.tolist()} want {want.tolist()}")
except Exception as e:
    report("D3", True, f"sensor_model (unequal noises) raised {type(e).__name__}: {str(e)[:80]}")


# D4 / runtime --------------------------------------------------------------------------
class Recorder:
    control_size = 0

    def __init__(self, max_dt):
        self.config = python.Config(max_dt_sec=max_dt)
        self.dts = []

    def process_model(self, dtv, state, covariance, control):
        self.dts.append(dtv)
        return state, covariance


rec = Recorder(0.25)
mf = runtime.ManagedFilter(rec, 1.0, None, None)
mf.tick(0.4)
bad = any(abs(d) > 0.25 + 1e-9 or d > 0 for d in rec.dts) or abs(sum(rec.dts) + 0.6) > 1e-9
report("D4", bad or len(rec.dts) != 3, f"max_dt_sec=0.25, 1.0 -> 0.4 issued dts {rec.dts}")

# D5 / D6: C++ (compile-time + tiny run with a recording Impl) ---------------------------
CPP = r"""
#include <cstdio>
#include <formak/runtime/ManagedFilter.h>
struct SV { double t = 0; };
struct Base { virtual SV sensor_model(const struct Impl&, const SV&) const = 0; };
struct Impl {
  struct Tag { using StateAndVarianceT = SV; using CalibrationT = std::false_type;
               using ControlT = std::false_type; using StampedReadingBaseT = Base;
               static constexpr double max_dt_sec = 0.1; };
  SV process_model(double dt, const SV& s) const { std::printf("%.3f ", dt); return s; }
};
int main() { formak::runtime::ManagedFilter<Impl> mf(0.0, SV{}); mf.tick(0.05); std::printf("\n"); }
"""
with tempfile.TemporaryDirectory() as td:
    src = os.path.join(td, "d.cpp")
    open(src, "w").write(CPP)
    exe = os.path.join(td, "d")
    r = subprocess.run(["g++", "-std=c++20", "-I", os.path.join(repo, "cpp/runtime/include"), src, "-o", exe],
                       capture_output=True, text=True)
    report("D6", r.returncode != 0, "no-control/no-calibration ManagedFilter " +
           ("does not compile: " + r.stderr.strip().splitlines()[0][-120:] if r.returncode else "compiles"))
    if r.returncode == 0:
        dts = [float(x) for x in subprocess.run([exe], capture_output=True, text=True).stdout.split()]
        report("D5", any(d < 0 or d > 0.1 + 1e-9 for d in dts), f"C++ 0 -> 0.05 (max 0.1) issued dts {dts}")
    else:
        # with calibration present the template compiles on the unrepaired tree too
        CPP2 = CPP.replace("using CalibrationT = std::false_type;", "using CalibrationT = int;") \
                  .replace("const SV& s) const {", "const SV& s, const int&) const {") \
                  .replace("mf(0.0, SV{})", "mf(0.0, SV{}, 1)")
        open(src, "w").write(CPP2)
        r = subprocess.run(["g++", "-std=c++20", "-I", os.path.join(repo, "cpp/runtime/include"), src, "-o", exe],
                           capture_output=True, text=True)
        dts = [float(x) for x in subprocess.run([exe], capture_output=True, text=True).stdout.split()] if r.returncode == 0 else None
        report("D5", dts is None or any(d < 0 or d > 0.1 + 1e-9 for d in dts), f"C++ 0 -> 0.05 (max 0.1) issued dts {dts}")


# D7/D8/D9/D11: generator ------------------------------------------------------------------
def cpp_args(td):
    sys.argv = ["gen", "--header", os.path.join(td, "generated", "m.h"), "--source", os.path.join(td, "m.cpp"),
                "--namespace", "ns"]
    os.makedirs(os.path.join(td, "generated"), exist_ok=True)


x, y, u, k, k2 = sym("x", "y", "u", "k", "k2")
with tempfile.TemporaryDirectory() as td:
    cpp_args(td)
    m = ui.Model(dt=dt, state={x}, control={u}, calibration={k}, state_model={x: x + dt * u * k})
    try:
        cpp.compile(m, {k2: 1.0})
        report("D7", True, "cpp.compile accepted calibration_map {k2: ...} for calibration {k}")
    except Exception as e:
        report("D7", False, f"cpp.compile refused: {type(e).__name__}")
    accepted = []
    for label, kw in [("missing process noise", dict(process_noise={}, sensor_models={"s": {"r": x}}, sensor_noises={"s": {"r": 1.0}})),
                      ("negative process noise", dict(process_noise={u: -1.0}, sensor_models={"s": {"r": x}}, sensor_noises={"s": {"r": 1.0}})),
                      ("noise for undeclared sensor", dict(process_noise={u: 1.0}, sensor_models={"s": {"r": x}}, sensor_noises={"s": {"r": 1.0}, "t": {"q": 1.0}})),
                      ("missing reading noise", dict(process_noise={u: 1.0}, sensor_models={"s": {"r": x, "r2": 2 * x}}, sensor_noises={"s": {"r": 1.0}}))]:
        try:
            cpp.compile_ekf(m, calibration_map={k: 1.0}, **kw)
            accepted.append(label)
        except Exception:
            pass
    report("D8", bool(accepted), f"cpp.compile_ekf accepted: {accepted}")
    ml = ui.Model(dt=dt, state=[x], control=[u], calibration=[k], state_model={x: x + dt * u * k})
    try:
        python.compile(ml, {k: 1.0})
        report("D9", False, "python.compile accepts list-declared calibration")
    except Exception as e:
        report("D9", True, f"python.compile refuses list-declared calibration: {type(e).__name__}: {str(e)[:60]}")
    ts = ui.Symbol("t_step")
    mt = ui.Model(dt=ts, state={x}, control={u}, state_model={x: x + 3 * ts * u})
    gen = cpp.ExtendedKalmanFilter(mt, {u: 1.0}, {}, {}, "ns", "h", cpp.Config(common_subexpression_elimination=False))
    body = " ".join(str(s.value) for s in gen.process_model_body())
    report("D11", "t_step" in body, f"process model body with dt symbol 't_step': {body[:70]}")

# D10 -----------------------------------------------------------------------------------
rng = np.random.default_rng(1)
refused = 0
for _ in range(200):
    A = rng.normal(size=(4, 2)) * 30.0
    try:
        python.assert_valid_covariance(A @ A.T)
    except AssertionError:
        refused += 1
tp = {n: ui.Symbol(n) for n in ["mass", "z", "v", "a"]}
thrust = ui.Symbol("thrust")
mm = ui.Model(dt=dt, state=set(tp.values()), control={thrust},
              state_model={tp["mass"]: tp["mass"], tp["z"]: tp["z"] + dt * tp["v"],
                           tp["v"]: tp["v"] + dt * tp["a"], tp["a"]: -9.81 * tp["mass"] + thrust})
ekf = python.compile_ekf(mm, {thrust: 1.0}, {"simple": {tp["v"]: tp["v"]}}, {"simple": {tp["v"]: 1.0}})
st, cv = ekf.State(), ekf.Covariance()
step = None
try:
    for step in range(1, 200):
        st, cv = ekf.process_model(0.1, st, cv, ekf.Control())
    step = None
except AssertionError as e:
    pass
report("D10", refused > 0 or step is not None,
       f"{refused}/200 exact rank-2 PSD 4x4 matrices refused; mass/z/v/a model refused at prediction {step}")

print("present:", [n for n, p in out if p])

# D12 -----------------------------------------------------------------------------------
# symmetry gate: np.allclose(P, P.T) is relative per element, not relative to the matrix; a covariance of magnitude 1e12 whose small
# entries carry rounding asymmetry ~1e-5 (1e-17 relative to the matrix) is refused as invalid
ekf12 = python.compile_ekf(mm, {thrust: 1.0}, {"simple": {tp["v"]: tp["v"]}}, {"simple": {tp["v"]: 1000.0}},
                           config=python.Config(innovation_filtering=None))
st, cv = ekf12.State(), ekf12.Covariance(mass=1e12, z=1e12, v=1e12, a=1e12)
refused = None
try:
    for step in range(1, 40):
        st, cv = ekf12.process_model(0.1, st, cv, ekf12.Control())
        st, cv = ekf12.sensor_model(st, cv, sensor_key="simple", sensor_reading=ekf12.make_reading("simple", v=0.0))
except AssertionError as e:
    asym = float(np.max(np.abs(cv.data - cv.data.T)))
    refused = (step, asym, float(np.max(np.abs(cv.data))))
report("D12", refused is not None, f"large-magnitude covariance refused by the symmetry gate at step/asymmetry/magnitude {refused}")
print("present:", [n for n, p in out if p])

# D13 -----------------------------------------------------------------------------------
# innovation covariance S = H P H^T + Q handed to the symmetry gate as the products left it: the products round relative to |H|^2 |P|
# (state ~1e4 => |H|^2 ~ 1e8), S itself is ~|Q| once the first update has deflated P along H; the gate tolerates 1e-8*|S| => the filter's own
# second update is refused.  (Found through a sub-agent's remark while it built equivalence histories; repaired by 8fbcf08.)
x13, y13, v13, a13 = ui.symbols(["x", "y", "v", "a"])
m13 = ui.Model(dt=dt, state={x13, y13, v13}, control={a13}, state_model={x13: x13 + dt * v13, y13: y13, v13: v13 + dt * a13})
ekf13 = python.compile_ekf(symbolic_model=m13, process_noise={a13: 1.0}, sensor_models={"s": {"p": x13 * y13, "q": v13 * v13}},
                           sensor_noises={"s": {"p": 0.3, "q": 0.4}}, config=python.Config(innovation_filtering=None))
refused13 = 0
for seed in range(20):
    rng = np.random.default_rng(seed)
    st = ekf13.State.from_data(rng.normal(size=(3, 1)) * 1e4)
    r_ = rng.normal(size=(3, 3))
    cv = ekf13.Covariance.from_data(r_ @ r_.T + np.eye(3))
    try:
        for k in range(3):
            z = ekf13.sensor_models["s"].model(st).data + rng.normal(size=(2, 1))
            st, cv = ekf13.sensor_model(st, cv, sensor_key="s", sensor_reading=ekf13.make_reading("s", data=z))
    except AssertionError:
        refused13 += 1
report("D13", refused13 > 0, f"{refused13}/20 histories: the second update of a valid filter (state ~1e4, S ~ 0.7) refused: Sensor Uncertainty not symmetric")
print("present:", [n for n, p in out if p])
