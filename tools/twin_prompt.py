"""Print the prompt for a behaviour-preserving-refactor sub-agent: property texts + scratch worktree only (nothing from /verif)."""
import json, os, sys
grp = sys.argv[1]
pids = sys.argv[2:]
props = {json.loads(l)["id"]: json.loads(l) for l in open("/verif/properties.jsonl")}
WT, OUT = f"/tmp/wtT/{grp}", f"/tmp/twinT/{grp}"
EXTRA = os.environ.get("TWIN_EXTRA", "")
EXTRA = (EXTRA + "\n") if EXTRA else ""
ptxt = "\n".join(f"  [{p}] {props[p]['title']}: {props[p]['statement']}\n      (quantified over: {props[p]['quantifier']['text']}; code: {', '.join(props[p]['anchors']['files'])})" for p in pids)
print(f"""You are helping to evaluate a verification effort for the open-source Python/C++ library FormaK (buckbaskin/formak): a library that turns sympy state/sensor models into Python and C++ Extended Kalman Filter code (with common-subexpression elimination, innovation filtering and a "managed filter" runtime).

Your scratch copy of the repository is the git worktree at {WT} (work ONLY there; never touch /repo or /verif, and do not read anything under /verif). Put your deliverables under {OUT}/.

The evaluation needs realistic BEHAVIOUR-PRESERVING changes: commits a maintainer might really make to the code below that do NOT change what the library does, so that we can see whether property checkers raise false alarms on them. The properties under study (all hold on the unchanged tree, and must STILL hold after each of your changes):

{ptxt}

Your task: produce FIVE independent source changes "t1".."t5" to the library code the properties above are about (the files named above and the helpers they call; under py/formak/, cpp/ or py/formak/templates/ -- not the tests). Each change, applied alone to the unchanged worktree, must
  1. leave every observable behaviour of the library exactly as it was (same return values, same generated C++ text up to whitespace where you touch the generator -- or provably equivalent C++ --, same exceptions for the same inputs, same ordering of side effects that a caller can observe); in particular each property above still holds for every input;
  2. be a realistic, non-trivial commit touching the code that implements the properties (not just comments / docstrings / whitespace): e.g. extract a helper function or method, inline one, rename locals or private attributes consistently, replace a loop by a comprehension or vice versa, reorder independent statements, restructure a conditional (early return vs nested if, De Morgan, swap branches with negated test), replace `"..".format(x)` by an f-string, hoist a repeated expression into a local, introduce a small dataclass / namedtuple for a pair that is passed around, split a long function in two, replace an index loop by enumerate/zip where equivalent, use a different but equivalent numpy / sympy / STL idiom (e.g. `a @ b` vs `np.matmul(a, b)`, `x.T` vs `np.transpose(x)`, std::any_of vs a loop), add type hints, add logging or debug-only assertions that cannot fire, move a constant to module level, etc. Use a DIFFERENT style of change in each of the five and spread them over the different properties/files above; at least one should be a moderately large refactor (30+ changed lines).
  3. keep the existing runnable test suite passing exactly as before: run from the worktree root
       /venv/bin/python -m pytest -q -p no:cacheprovider --timeout=900 --continue-on-collection-errors
     (about 1-5 minutes; 42 tests pass and many others fail/error on the UNCHANGED tree for environmental reasons -- see below; the set of passing tests must be unchanged by your edit).
For each change also write an equivalence demonstration: a small self-contained Python script `equiv.py` that takes the repository root as its first argument, puts <root>/py on sys.path, exercises the touched code on a few varied inputs (several models / configurations / sequences) and prints a deterministic digest (e.g. sha256 of the generated C++ with whitespace normalised, or rounded numeric outputs, or the exception types raised); the digest printed on the unchanged worktree and with the change applied must be identical. For changes to C++ headers, which cannot be compiled against Eigen here, instead explain in meta.json why the change is equivalent (and, if you can, give a small C++ program with stand-in types that behaves the same before and after).

Deliver, for k in 1..5:
  {OUT}/t<k>/patch.diff   (output of `git diff` in the worktree with only that change applied; must apply cleanly with `git apply` to the unchanged tree)
  {OUT}/t<k>/equiv.py     (or equiv.cpp + equiv.sh)
  {OUT}/t<k>/meta.json    {{"properties": [...], "summary": "...", "style": "...", "files": [...], "why_equivalent": "..."}}
Do not use `git stash` (the stash is shared between worktrees of one repository; other volunteers work in sibling worktrees). Before finishing, leave the worktree clean (`git checkout -- .`) and verify for each change: patch applies; digest identical with and without it; the pytest run has the same passing set.

Environment facts you need (sandbox, no network):
  * Use /venv/bin/python (3.12; numpy 2.x, sympy, scipy, scikit-learn, jinja2 installed). Run scripts with the repo root as cwd (templates are loaded from the relative path py/formak/templates/).
  * numpy 2.x breaks the library's numeric paths on the unchanged tree (iterating a named vector or the calibration vector yields 1-element arrays and numpy refuses to store a computed 1-element array in a scalar slot: "setting an array element with a sequence"), which is why most numeric tests fail here regardless of your change. In your equivalence script, apply this environment workaround right after importing formak (it only converts the positional arguments of the compiled blocks to floats):
        import numpy as np
        from formak import python
        _orig = python.BasicBlock.execute
        def _exec(self, *args, **kw):
            return _orig(self, *[float(np.asarray(a).reshape(-1)[0]) if isinstance(a, np.ndarray) else a for a in args], **kw)
        python.BasicBlock.execute = _exec
    (if your change renames or restructures BasicBlock.execute, adapt the workaround in the script accordingly).
  * SklearnEKFAdapter.transform / mahalanobis / score / fit additionally call float() on a 1x1 array, which numpy 2 rejects; a script that needs them must also install, after importing formak.python, a module-level replacement `python.float` (a small class whose __new__ unwraps size-1 arrays and that still works with isinstance(x, float) via __instancecheck__ on its metaclass) -- library code itself must not be changed for this.
  * The C++ generator's entry points cpp.compile / cpp.compile_ekf parse sys.argv (--header, --source, --namespace); in a script either set sys.argv or construct cpp.Model / cpp.ExtendedKalmanFilter directly and call cpp.header_from_ast / cpp.source_from_ast(generator=...) (run with cwd = repo root).
  * g++ and clang++ (C++20) are installed; Eigen, gtest and Bazel are not.
{EXTRA}Report back briefly: for each change, the file/function touched, the style of change, and why it is equivalent.""")
