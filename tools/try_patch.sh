#!/bin/bash
# usage: tools/try_patch.sh [-R] <patch.diff> <prop id>...   -- run checks against a scratch copy of /repo with the patch applied
set -u
REV=""
if [ "$1" = "-R" ]; then REV="-R"; shift; fi
PATCH=$(realpath "$1"); shift
D=$(mktemp -d /tmp/fvscratch.XXXXXX)
trap 'rm -rf "$D"' EXIT
mkdir -p "$D/repo"
(cd /repo && rsync -a --exclude test --exclude __pycache__ py cpp "$D/repo/")
(cd "$D/repo" && git init -q . 2>/dev/null; git apply $REV "$PATCH") || { echo "PATCH DID NOT APPLY"; exit 3; }
for p in "$@"; do
  FV_NO_EVIDENCE=1 FV_REPLAY_DIR="$D/replay" /venv/bin/python /verif/fv/check.py "$p" --repo "$D/repo" | grep -E "^\s+\[|VIOLATION|ANALYSIS-ERROR|KNOWN|verdict|Traceback|Error"
  echo "   -> $p exit=${PIPESTATUS[0]}"
done
