"""Print the prompt for a mutation sub-agent: property text + scratch worktree only (nothing from /verif)."""
import json, sys
pid = sys.argv[1]
props = {json.loads(l)["id"]: json.loads(l) for l in open("/verif/properties.jsonl")}
p = props[pid]
import glob, os
avoid = []
for d in sorted(glob.glob(f"/verif/seeded/{pid}-m*") + glob.glob("/verif/seeded/*")):
    try:
        m = json.load(open(os.path.join(d, "meta.json")))
    except Exception:
        continue
    if m.get("property") == pid or pid in m.get("also_breaks", []):
        sm = (m.get("summary") or "")[:260].replace("\n", " ")
        if sm and sm not in avoid:
            avoid.append(sm)
ROUND = os.environ.get("MUT_ROUND", "1")
COUNT = int(os.environ.get("MUT_COUNT", "2"))
NTXT = ('TWO independent source changes ("m1" and "m2", as different from each other in mechanism and location as you can)' if COUNT == 2 else
        'ONE source change ("m1"; think of several candidates first and pick the one that is hardest to notice in review and by any tool that only looks at the obvious place -- '
        'consider the less obvious layers too: py/formak/templates/*, cpp/include/formak/*.h, cpp/runtime/include/formak/runtime/*.h, py/formak/ast_tools.py, '
        'py/formak/ast_fragments.py, py/formak/common.py, py/formak/ui_model.py, construction code vs evaluation code, two cooperating edits)')
KS = "1,2" if COUNT == 2 else "1"
AVOID = ""
if ROUND != "1" and avoid:
    AVOID = "\nEarlier volunteers already produced the following changes for this property; yours must be DIFFERENT in mechanism and preferably in location (another function, file or layer -- e.g. the other back-end, the templates, the runtime header, a helper, the generator, the construction code rather than the evaluation code):\n" + "\n".join("  - " + a for a in avoid) + "\n"
OUT = f"/tmp/mut{ROUND}" if ROUND != "1" else "/tmp/mut"
WT = f"/tmp/wt{ROUND}" if ROUND != "1" else "/tmp/wt"
print(f"""You are helping to evaluate a verification effort for the open-source Python/C++ library FormaK (buckbaskin/formak): a library that turns sympy state/sensor models into Python and C++ Extended Kalman Filter code (with common-subexpression elimination, innovation filtering and a "managed filter" runtime).

Your scratch copy of the repository is the git worktree at {WT}/{pid} (work ONLY there; never touch /repo or /verif, and do not read anything under /verif). Put your deliverables under {OUT}/{pid}/.

The property under study:

  Title: {p['title']}
  Statement: {p['statement']}
  Quantified over: {p['quantifier']['text']}

{AVOID}
Your task: produce {NTXT} to the library code (under py/formak/, cpp/ or py/formak/templates/ -- not the tests) such that EACH change, applied alone to the unchanged worktree:
  1. breaks the property above (the library then really misbehaves for some input / configuration / history the property quantifies over);
  2. still "compiles" (Python imports fine; C++ headers/templates remain syntactically and type-wise plausible) and the existing runnable test suite still passes exactly as before: run from the worktree root
       /venv/bin/python -m pytest -q -p no:cacheprovider --timeout=900 --continue-on-collection-errors
     (about 1-5 minutes; 42 tests pass and many others fail/error on the UNCHANGED tree for environmental reasons -- see below; the set of passing tests must be unchanged by your edit);
  3. is realistic -- the kind of slip or well-meant refactor a maintainer could make and a reviewer could miss -- and is SUBTLE: it must need something specific to manifest (an unusual input or model shape, a particular configuration combination, a multi-step sequence of operations, a particular ordering of names, or two cooperating edits that each look fine alone), NOT something that any ordinary use would expose at once. Do not add dead code, environment-variable switches, random behaviour or special-casing of magic values; do not merely delete a whole feature.
For each change also write a demonstration: a small self-contained Python script (or, for C++-only changes, a small C++ program plus the g++/clang++ command line; there is no Eigen and no Bazel here, so C++ demos must use hand-written stand-in types, as the runtime headers are templates) that exits 0 on the unchanged worktree and exits non-zero (assertion failure) with the change applied. The demo takes the repository root as its first command-line argument and must put <root>/py on sys.path itself.

Deliver, for k in {KS}:
  {OUT}/{pid}/m<k>/patch.diff   (output of `git diff` in the worktree with only that change applied; must apply cleanly with `git apply` to the unchanged tree)
  {OUT}/{pid}/m<k>/demo.py      (or demo.cpp + demo.sh)
  {OUT}/{pid}/m<k>/meta.json    {{"property": "{pid}", "summary": "...", "needs_to_manifest": "...", "files": [...], "how_run": "..."}}
Do not use `git stash` (the stash is shared between worktrees of one repository; other volunteers work in sibling worktrees). Before finishing, leave the worktree clean (`git checkout -- .`) and verify for each change: patch applies; demo passes without it and fails with it; the pytest run has the same passing set.

Environment facts you need (sandbox, no network):
  * Use /venv/bin/python (3.12; numpy 2.x, sympy, scipy, scikit-learn, jinja2 installed). Run scripts with the repo root as cwd (templates are loaded from the relative path py/formak/templates/).
  * numpy 2.x breaks the library's numeric paths on the unchanged tree (iterating a named vector or the calibration vector yields 1-element arrays and numpy refuses to store a computed 1-element array in a scalar slot: "setting an array element with a sequence"), which is why most numeric tests fail here regardless of your change. In your demo, apply this environment workaround right after importing formak (it only converts the positional arguments of the compiled blocks to floats):
        import numpy as np
        from formak import python
        _orig = python.BasicBlock.execute
        def _exec(self, *args, **kw):
            return _orig(self, *[float(np.asarray(a).reshape(-1)[0]) if isinstance(a, np.ndarray) else a for a in args], **kw)
        python.BasicBlock.execute = _exec
  * SklearnEKFAdapter.transform / mahalanobis / score / fit additionally call float() on a 1x1 array, which numpy 2 rejects; a demo that needs them must also install, after importing formak.python, a module-level replacement `python.float` (a small class whose __new__ unwraps size-1 arrays and that still works with isinstance(x, float) via __instancecheck__ on its metaclass) -- library code itself must not be changed for this.
  * The C++ generator's entry points cpp.compile / cpp.compile_ekf parse sys.argv (--header, --source, --namespace); in a demo either set sys.argv or construct cpp.Model / cpp.ExtendedKalmanFilter directly and call cpp.header_from_ast / cpp.source_from_ast(generator=...) (run with cwd = repo root).
  * g++ and clang++ (C++20) are installed; Eigen, gtest and Bazel are not.
Report back briefly: for each change, the file/function touched, why it breaks the property, and what it needs to manifest.""")
