#!/bin/bash
# usage: tools/run_twins_tmp.sh <dir with t*/patch.diff> ... ; runs ALL 19 quick checks on each patched scratch copy, prints non-zero exits
for d in "$@"; do
  for t in $d/t*; do
    [ -f $t/patch.diff ] || continue
    out=$(tools/try_patch.sh $t/patch.diff C01 C02 C03 C04 C05 C06 C07 C08 C09 C10 C11 C12 C13 C14 C15 C16 C17 C18 C19 2>&1)
    bad=$(echo "$out" | grep -- "-> C.. exit=[12]" | tr '\n' ' ')
    echo "$t: ${bad:-all hold}"
  done
done
