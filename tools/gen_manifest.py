"""Regenerate /verif/MANIFEST.json from the table below (one place to keep claims, levels and not_applicable current)."""
import json
import os

V = os.path.dirname(os.path.dirname(os.path.abspath(__file__)))
props = [json.loads(l)["id"] for l in open(os.path.join(V, "properties.jsonl"))]

Q = "/venv/bin/python /verif/fv/check.py {id} --tier quick"
T = "/venv/bin/python /verif/fv/check.py {id} --tier thorough"

CLAIMS = {
    "C09": dict(
        technique="dataflow queries on the validity gate + congruence normal form of the prediction covariance (static; structural necessary clauses only)",
        engine="E6 dataflow + E3 matform",
        text="Static, partial: only the structural necessary conditions are decided -- the eigenvalue threshold and the symmetry tolerance of "
             "assert_valid_covariance data-depend on the size/magnitude of the matrix (the property's own failure mode is a scale-free gate), the "
             "prediction covariance is a sum of congruences X.A.X^T of the prior and the noise (PSD by construction, singular Jacobians included), "
             "and neither the filter nor the managed runtime (runtime.py) has a second gate.",
        note="NOT decided (outside static reach): the update step P - K.H.P staying PSD, accumulation of rounding over histories, symmetry drift, "
             "conditioning. The claim is restricted to GATE-REL / SYM-REL / PSD-FORM / GATE-SITES.",
        ref="3/C09"),
    "C15": dict(
        technique="order-taint analysis over the abstract-interpretation iteration inventory + purity of generator modules (static)",
        engine="E2 layout + genlayout",
        text="Static: every loop / comprehension that contributes to generated C++ text iterates a canonical sorted layout (dict / set / items / values "
             "iteration only in guards, messages or under sorted()); the Python layout lists are sorted by name; every sorted() key is total and "
             "hash-free; the generator modules keep no module-level mutable state -- also not through a local alias of a module-level container "
             "(bytes do not depend on earlier generations); no set/dict repr "
             "reaches generated text; a built-in synthetic order leak must be reported on every run.",
        note="Trusted base: sympy cse/simplify/ccode are deterministic functions of their (ordered) input; names are distinct strings.",
        ref="3/C15"),
    "C16": dict(
        technique="def-use resolved structural rules on the adapter's row consumption and call sequence + normal form of the NIS + effect analysis (static)",
        engine="AST rules + E3 matform + E2 event log + E6 effects",
        text="Static: transform compiles the filter from exactly the estimator's parameters, consumes each row as [controls] then per sensor in sorted key "
             "order that sensor's readings (prefix slices with the remainder threaded, or a running offset that starts at 0 per row and advances by the "
             "sensor's size), predicts once with the fixed step and updates sensors in that order "
             "threading (state, covariance), appends y^T.Inv(S).y from the records of the same key, which sensor_model refreshes unconditionally; "
             "mahalanobis is the flattened output guarded against negatives; score is the documented combination; none of them changes a parameter; the "
             "converter every data argument passes through returns its argument as an array of the same shape and contents (DATA-ENTRY).",
        note="Not decided: numeric non-negativity, scikit-learn's behaviour. Some sub-rules compare normalised statement text of the adapter; an unfamiliar "
             "but equivalent restructuring is reported as ANALYSIS-ERROR / violation of the structural rule and needs triage.",
        ref="3/C16"),
    "C17": dict(
        technique="table agreement + branch-structure + writer/reader agreement via the abstract-interpretation iteration inventory (static)",
        engine="AST rules + E2 layout",
        text="Static: the four parameter tables agree and parameters are stored unmodified (clone contract); set_params applies each key by setattr / a "
             "fresh per-key Config rebuild / raise; the scoring vector's writer and reader enumerate the same ordered segments and the reader consumes "
             "exactly those prefixes, changes only the two noise maps and floors process noise positive; fit raises MinimizationFailure before the "
             "final set_params, takes the final parameters from the reader, refuses only None, and returns with every non-noise parameter holding the "
             "caller's value (a temporary value it installs is restored before the solution is read); the constructors on the compile path do not "
             "write into the objects they are given, directly or through a local alias, and neither does any method of the compiled block (python.BasicBlock) "
             "into its arglist, expressions or Config (the user's python_modules dicts included).",
        note="Not decided: finiteness of the optimum, other exceptions escaping fit for some data (needs the optimiser's path).",
        ref="3/C17"),
    "C18": dict(
        technique="declared-transition graph extraction, typestate (who may construct), BFS discipline and grid/export dataflow rules (static)",
        engine="AST rules",
        text="Static: the declared graph (state ids, available_transitions, return annotations) is the chain Start -> Symbolic_Model -> Fit_Model; states "
             "are constructed only by their predecessor's declared transition with a fresh history list; search is a FIFO BFS with path extension, goal "
             "test, type guard and exhaustion raise; fitting refuses too-small data before splitting, searches exactly the supplied grid, exports the "
             "best estimator with its config; ConfigView lets given parameters override defaults; set_params applies every key; the adapter's fit "
             "(GridSearchCV's refit) leaves the selected non-noise parameters as selected.",
        note="Not decided: what GridSearchCV selects. Shortest paths follow from BFS + FIFO on the extracted graph.",
        ref="3/C18"),
    "C19": dict(
        technique="def-use inlining of the reference model into terms and wiring comparison modulo commutativity (static; necessary conditions)",
        engine="AST term rules",
        text="Static, partial: the wiring of the strapdown model is decided -- one composed orientation (state x calibration) rotates gyro and bias-corrected "
             "specific force, gravity is added after the rotation, the orientation step is q + 0.5*q.mul(Q(0,gyro))*dt in that operand order, and each "
             "velocity / position entry is the dt-integral of its own axis; symbols sit in the sets the property names. Shared: NV-* (named vector), the temporaries protocol of python.BasicBlock (TMP-1/2/4), PY-ONCE, PY-PURE.",
        note="NOT decided: the polynomial identities themselves (signs inside quaternion products, sympy's to_rotation_matrix / integrate) -- they need "
             "computer algebra on the built expressions, i.e. execution or a solver, outside this family. The last sentence of the property is C01.",
        ref="3/C19"),
    "C13": dict(
        technique="structural rules on the named-array classes + layout abstract interpretation of both back-ends + container-use classification (static)",
        engine="E2 layout + genlayout + AST rules",
        text="Static: named_vector / named_covariance accept exactly the str() names of their arglist, refuse unknown names before storing, default to "
             "zeros / unit variance, store the value given for a name unmodified at that name's enumeration index, refuse wrong shapes; "
             "make_reading builds the sensor's own Reading; user containers are consumed only container-agnostically; every layout in python.py "
             "and in the C++ generator originates in a sorted-by-name enumeration and no declaration-order value reaches one, so a bijective "
             "renaming permutes both sides of every obligation consistently.",
        note="Renaming invariance is derived from the layout obligations (sorted() with a total key is permutation invariant); run-time values are not computed.",
        ref="3/C13"),
    "C14": dict(
        technique="validation matrix over the static call graph (guard recognisers by subject and relation, dominance by statement order); static",
        engine="E6 guards + call graph",
        text="Static: for each of the four compile entry points the call graph up to the first output action is walked and every fault class of the "
             "property (three overlap pairs, coverage size+keys, calibration-map set equality, noise key/missing/negative, sensor free symbols, sensor "
             "noise keys+sizes) must be discharged by an unconditional raise-guard; C++ entry points validate before _compile_impl, which generates "
             "both texts before opening files; no guard applies set algebra or equality to a raw user container (valid definitions are accepted); "
             "no back-end module parses / coerces a model expression after validation (NO-COERCE: what is compiled is what was validated).",
        note="Assumes Python is not run with -O (several guards are asserts). The recognisers check which collections are compared and how, not arithmetic.",
        ref="3/C14"),
    "C02": dict(
        technique="abstract interpretation of the generator over name-layouts + iteration inventory rules + compile witnesses (static)",
        engine="E2 layout + genlayout + tmprules + E4 witness",
        text="Static: cpp.ExtendedKalmanFilter / cpp.Model construction, reading_types() and every ast_fragments function are evaluated on "
             "abstract models; every loop that contributes to generated text must run over the canonical sorted layout of its role "
             "(GEN-ITER / SLOT-AGREE), accessors return the slot of their own enumeration index (SLOT-IDX), jacobian(i,j)/covariance(i,j)/"
             "`double name` targets carry the indices of what they are assigned (LAY-JAC/COVIDX/TGT), substitution sets cover exactly the "
             "emitted function's parameters incl. dt (SUBS), control noise is chosen by name (LAY-KEYMAT), cpp.BasicBlock follows the "
             "temporaries protocol, declarations match definitions and the templates type-check for all four valuations; the generator's methods keep "
             "no instance state except memo entries keyed by every parameter the cached value reads, whole (GEN-MEMO).",
        note="Trusted base: sympy diff/subs/ccode. Not decided: compilation against real Eigen, run-time values of the printed expressions.",
        ref="3/C02"),
    "C07": dict(
        technique="pairwise equality of non-commutative normal forms (Python ast interpreter vs clang AST of rendered templates) + shared layouts + witnesses; static",
        engine="E2/E3 + E4 witness/cppforms + genlayout",
        text="Static: for all four control x calibration valuations the generated C++ prediction and update have exactly Python's normal forms "
             "(covariance, posterior state/covariance, stored innovation), call their model/Jacobian/noise functions on the same argument lists, "
             "take the same accept/reject decision (C06's rules on both sides), give every role the same sorted layout on both sides, bind named "
             "fields to the same slots (genlayout SLOT rules), and type-check on dimension-typed matrices.",
        note="Not decided: values of the sympy-printed bodies, rounding. Trusts clang and that numpy/Eigen implement the same matrix algebra.",
        ref="3/C07"),
    "C06": dict(
        technique="non-commutative normal forms of three sibling implementations (Python ast interpreter, clang AST) + path/effect facts; static",
        engine="E2/E3 interpreter + E4 cppast/witness",
        text="Static: python.remove_innovation, the C++ helper removeInnovation and the generated sensor_model template are reduced to "
             "normal forms (NIS = y^T.Inv(S).y as matrix products, bound = k*sqrt(2m)+m, strict >) and compared pairwise; the decision is "
             "taken on (z-h, Inv(S)) of this update; on rejection both filters return their own arguments with the innovation already "
             "recorded; the disabled setting (None in Python, 0.0 behind if-constexpr in C++) never reaches the decision; the decision "
             "function keeps no state.",
        note="Not decided: ulp-level agreement at the boundary (numpy vs Eigen summation order). Trusts clang's front end and the stand-in Eigen's typing.",
        ref="3/C06"),
    "C12": dict(
        technique="compile-fail witnesses: clang++ -fsyntax-only on TUs derived from the generator by partial evaluation; static",
        engine="E4 witness + minieval + E5 rtmodel",
        text="Static: for all control x calibration valuations (x filtering on/off; thorough: 0 sensors, 1-sized and 7-state variants) a witness "
             "TU built from the generator's own declaration skeleton (derived from ast_fragments.py / cpp._header_body by partial evaluation), "
             "the repo's templates, ManagedFilter.h and innovation_filtering.h and a dimension-typed Eigen stand-in is type-checked: "
             "compatible, construction, tick with/without readings, by-hand calls. Reading::sensor_model delegates to the filter; the C++ "
             "step/tick plans satisfy C10/C11's rules.",
        note="Not decided: linking, real Eigen, the sympy-printed expressions (C02). Trusts clang, the stand-in Eigen and jinja2 (templates are rendered by a static "
             "renderer for the subset the repo uses). The declaration skeleton is what the repo's own construction code *and printer* (ast_fragments, cpp._header_body / "
             "_source_body, cpp.Config.ccode, the generator classes' body builders and enable_* methods, ast_tools.<Node>.compile) produce when evaluated by "
             "fv.minieval on stand-in generators; only the sympy expressions inside the bodies are stubbed.",
        ref="3/C12"),
    "C01": dict(
        technique="abstract interpretation over a name-layout domain + symbolic evaluation of the temporaries protocol (static)",
        engine="E2 layout + tmprules",
        text="Static: python.Model's sorted argument lists, block statements, frozen calibration vector, execute() actuals, result zip and "
             "by-name State construction are layout-typed for every model at once; python.BasicBlock's compile/execute follow the "
             "temporaries protocol for both CSE settings; sympy is only called with its trusted signatures; Model.model / SensorModel.model write nothing on the instance and return no window onto instance storage (EVAL-PURE). Shared rule sets: the named-vector container binds by name (NV-*), the temporaries protocol, no module-/class-level state (PY-PURE).",
        note="Trusted base: sympy cse/simplify/lambdify preserve value under their default contracts; floating-point accuracy is not decided.",
        ref="3/C01"),
    "C08": dict(
        technique="symbolic evaluation of both BasicBlock classes against a temporaries protocol (static)",
        engine="tmprules",
        text="Static: for both settings of the CSE flag, python.BasicBlock (_compile, execute) and cpp.BasicBlock (compile) are "
             "symbolically evaluated and compared with the protocol: every temporary bound once, in cse order, before its first use, "
             "from inputs and earlier temporaries only; the flag gates only cse()/simplify(); trusted sympy signatures only.",
        note="Trusted base: sympy.cse ordering/fresh names, simplify/lambdify/ccode value preservation. Values themselves are not computed.",
        ref="3/C08"),
    "C03": dict(
        technique="abstract interpretation over a name-layout domain (static, Python ast)",
        engine="E2 layout",
        text="Static: every Jacobian block's differentiation lists, execute() argument layouts and the three row-major un-flatten "
             "nests are typed with name-layouts and checked for every model at once (stride, row range, column prefix, index order); the "
             "differentiated entries reach the compiled block without sympy rewriting outside the CSE gate (PY-NO-REWRITE, shared with C01/C04/C05).",
        note="Trusted base: sympy Matrix.jacobian / lambdify / row-major Matrix iteration. Not decided: numeric derivative values.",
        ref="3/C03"),
    "C04": dict(
        technique="abstract interpretation (axis typing) + non-commutative normal forms + effect analysis (static)",
        engine="E2 layout + E3 matform + E6 effects",
        text="Static: process_model's products/sums conform on name-typed (primed) axes; returned covariance normalises to "
             "G.P.G^T + V.M.V^T; returned state is the state-model call on the same (dt, state, control); noise matrix is filled by "
             "control name; the prediction path and the module-level helpers it calls have no write effects (in-place permissions of library calls, "
             "overwrite_* / out=, count as writes); no sympy rewriting outside the CSE gate. Shared: NV-* on the named vector / covariance containers; PY-PURE (no state shared between filters).",
        note="Trusted base: numpy matmul/transpose/+; values of G, V, f (C03, sympy). P, M symmetric as the property states.",
        ref="3/C04"),
    "C05": dict(
        technique="abstract interpretation (axis typing) + non-commutative normal forms (static)",
        engine="E2 layout + E3 matform",
        text="Static: sensor_model's S, recorded innovation, posterior state and covariance normalise to the Kalman forms; Q is a "
             "by-name covariance over the sensor's sorted readings, the one compile_ekf was given (ARG-PASS); all products/sums conform on name-typed axes (no broadcast); "
             "no sympy rewriting outside the CSE gate. Shared: PY-PURE (no class-level record dicts shared between filters).",
        note="Trusted base: numpy linalg.inv/matmul; values of H, h (C03, sympy). Corollaries of the formulas are not separately checked.",
        ref="3/C05"),
    "C10": dict(
        technique="IR-level symbolic execution + sign analysis + estimate value-flow (typestate) of the step functions (Python ast, clang AST); static",
        engine="E5 rtmodel + estflow + E4 cppast",
        text="Static: runtime._process_model and both C++ processUpdate overloads (4 control x calibration instantiations; private helpers, "
             "generators and member templates inlined) are lowered to one IR and symbolically executed under the forward/backward scenarios; "
             "DIR/MAG/TEMPLATE/READ-ONLY rules + the lemma of DESIGN.md imply every clause; CHAIN: every step starts from the newest estimate "
             "(state / covariance / control in their own parameters) and the newest estimate is returned; the configured maximum reaches the "
             "generated C++ constant losslessly; HOLD: a move to a reading's time is committed whole (time, state, covariance in one assignment), so "
             "the held time and estimate cannot part when an update raises; the k-loop counter starts at 0 and advances by one; no narrowing of the time "
             "arithmetic to float, and the step count / loop counter are never cast to or held in an integer type of fewer than 64 bits.",
        note="Assumes max_dt_sec > 0 and moderate times (the property's quantifier); trusts clang's front end and IEEE floor/abs.",
        ref="3/C10"),
    "C11": dict(
        technique="ordered call/effect event extraction of every tick body vs a tick plan + estimate value-flow + guard normal forms (Python ast, clang AST); static",
        engine="E5 rtmodel + estflow + E4 cppast",
        text="Static: the Python tick and all C++ tick overloads (4 instantiations; helpers inlined) are flattened to ordered "
             "STEP/UPDATE/WRITE/RETURN events and checked against the TickPlan: readings folded in the given order (the argument itself, only an "
             "absent one read as empty), held fields written per reading component by component, the update applied to the held estimate with the "
             "reading's own key and data, output propagation returned and never held, control required (guard = exactly `control is None and "
             "control_size > 0`; for the C++ overloads the literal static_assert or, failing that, compile-fail witnesses) and passed on, no reading "
             "skipped (`continue` is structured into a guard), Python and C++ skeletons equal and both step functions on the one step-plan template "
             "(STEP-SIBLINGS). STEP-SIBLINGS includes CHAIN: every prediction step of both runtimes starts from the result of the previous one.",
        note="Trusts clang's front end. The step function's own purity is C10/READ-ONLY. Values of process/sensor models are C04/C05.",
        ref="3/C11"),
}

NOT_YET = "check under construction in this session (planned rules: DESIGN.md section 3); not claimed until it runs clean"


# rule sets a property shares with its siblings since round 8 (DESIGN 8.19): appended to the claim text
SHARED = {
    "C01": " STMT-SOURCE: block statements are the user's expressions selected by name (no truth-value test, no fallback).",
    "C05": " Shared: the gate sensor_model consults is the documented one (C06's NIS-FORM / THRESH-FORM / CMP on the Python side); the sensor model's frozen calibration vector is indexed by the sorted calibration symbols (LAY-BUILD).",
    "C07": " Shared: cpp.BasicBlock's temporaries protocol, CSE gate and trusted sympy signatures (TMP-3 / TMP-4 / TRUST-SIG).",
    "C09": " Shared: cpp.BasicBlock's temporaries protocol, CSE gate and trusted sympy signatures (every coefficient of a generated noise matrix is assigned).",
    "C10": " Shared: SET-PARAMS (the configured maximum the exported filter carries is the one the user configured).",
    "C11": " INIT: every user-written constructor of the managed filter reads each of its parameters (start time, initial estimate, calibration), in both runtimes.",
    "C13": " Shared: the sensor model's frozen calibration vector is indexed by the sorted calibration symbols (LAY-BUILD).",
    "C15": " Shared: GEN-MEMO (generator methods keep nothing from one emission to the next except soundly keyed memo entries).",
    "C16": " Shared: MAKE-READING (the reading built from a sensor's columns is that sensor's Reading.from_data).",
    "C19": " Shared: compiling the reference model neither rewrites its expressions nor writes into the shared module-level model (PY-NO-REWRITE, INPUT-PURE).",
}
for _p, _t in SHARED.items():
    CLAIMS[_p]["text"] = CLAIMS[_p]["text"] + _t


def main():
    checks = []
    for pid in props:
        c = CLAIMS.get(pid)
        if not c:
            continue
        checks.append({
            "property_id": pid,
            "quick_cmd": Q.format(id=pid),
            "thorough_cmd": T.format(id=pid),
            "evidence_file": f"/verif/evidence/{pid}.json",
            "replay_cmd_template": "/venv/bin/python /verif/fv/check.py " + pid + " --replay {path}",
            "engine": c["engine"],
            "level_claimed": {"category": "other", "text": c["text"], "design_ref": "DESIGN.md section " + c["ref"]},
            "level_note": c["note"],
            "technique": c["technique"],
        })
    man = {
        "version": 1,
        "setup_cmd": "/venv/bin/python -m compileall -q /verif/fv",
        "hooks": {"guard": "FORMAK_VERIF",
                  "enable": "none needed: every check is a static analysis that reads /repo's source as it is; no hook or "
                            "instrumentation was added to the repository (the guard name is declared and unused)",
                  "baseline_off_cmd": "cd /repo && /venv/bin/python -m pytest -ra -q -p no:cacheprovider --timeout=900 --continue-on-collection-errors",
                  "source_commits": [], "add_only": True},
        "engines": [
            {"name": "E2 layout", "path": "/verif/fv/interp.py", "serves_properties": ["C01", "C02", "C03", "C04", "C05", "C06", "C07", "C13", "C16"],
             "kind_free_text": "abstract interpreter over name-layout values (stdlib ast)"},
            {"name": "E3 matform", "path": "/verif/fv/matform.py", "serves_properties": ["C04", "C05", "C06", "C07", "C09", "C16"],
             "kind_free_text": "non-commutative polynomial normal forms with transpose/inverse"},
            {"name": "E4 cppast", "path": "/verif/fv/cppast.py", "serves_properties": ["C06", "C07", "C10", "C11", "C12"],
             "kind_free_text": "clang++ -fsyntax-only witnesses and JSON AST lowering"},
            {"name": "E5 rtmodel", "path": "/verif/fv/rtmodel.py", "serves_properties": ["C10", "C11"],
             "kind_free_text": "step/tick plan extraction, sign analysis"},
            {"name": "E6 effects", "path": "/verif/fv/effects.py", "serves_properties": ["C04", "C06", "C11", "C16"],
             "kind_free_text": "write-effect analysis of Python methods"},
        ],
        "checks": checks,
        "notes": "Technique family: static analysis only (Python ast abstract interpretation, normal forms, clang -fsyntax-only / AST). "
                 "Exit codes: 0 holds, 1 VIOLATION, 2 ANALYSIS-ERROR (never a silent pass). See DESIGN.md.",
        "not_applicable": [{"property_id": p, "reason": NA.get(p, NOT_YET)} for p in props if p not in CLAIMS],
    }
    json.dump(man, open(os.path.join(V, "MANIFEST.json"), "w"), indent=1)
    print("claimed:", [c["property_id"] for c in checks])


NA = {}

if __name__ == "__main__":
    main()
