"""Gap probe (development tool): apply one textual edit to a scratch copy and run checks.
usage: tools/probe.py <rel file> <props comma> <<< "OLD\n=====\nNEW"   (reads the edit from stdin)"""
import os, shutil, subprocess, sys
sys.path.insert(0, "/verif")
from fv import selftest
rel, props = sys.argv[1], sys.argv[2].split(",")
old, new = sys.stdin.read().split("\n=====\n")
old, new = old.strip("\n"), new.rstrip("\n").lstrip("\n")
td = selftest.scratch("/repo")
try:
    p = os.path.join(td, "repo", rel)
    s = open(p).read()
    assert s.count(old) == 1, f"old text occurs {s.count(old)} times"
    open(p, "w").write(s.replace(old, new))
    if rel.endswith(".py"):
        compile(open(p).read(), rel, "exec")
    for pr in props:
        rc, msg = selftest.run_check(pr, td + "/repo")
        print(f"{pr}: rc={rc} {msg[:260]}")
finally:
    shutil.rmtree(td, ignore_errors=True)
