"""Run the pinned baseline suite (guard off) and compare with BASELINE.json stable_pass.
usage: /venv/bin/python tools/baseline_check.py [repo]   -> exit 0 iff every stable_pass test passed."""
import json, os, subprocess, sys, tempfile
import xml.etree.ElementTree as ET
repo = sys.argv[1] if len(sys.argv) > 1 else "/repo"
base = json.load(open("/root/.vp/BASELINE.json"))
with tempfile.TemporaryDirectory() as td:
    x = os.path.join(td, "j.xml")
    env = dict(os.environ); env.pop("FORMAK_VERIF", None)
    subprocess.run(["/venv/bin/python", "-m", "pytest", "-ra", "-q", "-p", "no:cacheprovider", "--timeout=900",
                    "--continue-on-collection-errors", f"--junitxml={x}"], cwd=repo, env=env,
                   stdout=subprocess.DEVNULL, stderr=subprocess.DEVNULL)
    passed = set()
    for tc in ET.parse(x).getroot().iter("testcase"):
        if not any(c.tag in ("failure", "error", "skipped") for c in tc):
            passed.add(f"{tc.get('classname')}::{tc.get('name')}")
missing = [t for t in base["stable_pass"] if t not in passed]
print(f"passed={len(passed)} stable_pass={len(base['stable_pass'])} missing={missing}")
sys.exit(1 if missing else 0)
