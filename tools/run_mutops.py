"""Run every mutation operator against every property it is listed for; print misses / not-applicable."""
import sys, os, concurrent.futures as cf
sys.path.insert(0, "/verif")
from fv import core, mutops, selftest
filt = sys.argv[1:]
jobs = []
with cf.ThreadPoolExecutor(16) as ex:
    for o in mutops.OPS:
        for p in o["props"]:
            if filt and not any(f in o["name"] or f == p for f in filt):
                continue
            jobs.append((o["name"], p, ex.submit(selftest.one_mutop, p, "/repo", o)))
    res = [(n, p, j.result()) for n, p, j in jobs]
bad = 0
for n, p, r in res:
    if r["result"] != "violation":
        bad += 1
        print(f"{r['result']:15s} {p} {n}: {r['detail'][:160]}")
print(f"{len(res)} (operator, property) pairs; {bad} not reported as violation")
