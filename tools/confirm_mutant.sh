#!/bin/bash
# usage: tools/confirm_mutant.sh /tmp/mut/C01/m1   -> writes <dir>/confirm.txt: demo_clean=<rc> demo_mut=<rc> tests=<ok|FAIL>
D=$(realpath "$1")
W=$(mktemp -d /tmp/confirm.XXXXXX); rmdir "$W"
git -C /repo worktree add -q --detach "$W" HEAD || exit 9
run_demo() {
  if [ -f "$D/demo.py" ]; then (cd "$W" && timeout 900 /venv/bin/python "$D/demo.py" "$W" >/dev/null 2>&1); echo $?
  elif [ -f "$D/demo.sh" ]; then (cd "$W" && timeout 900 bash "$D/demo.sh" "$W" >/dev/null 2>&1); echo $?
  else echo nodemo; fi
}
A=$(run_demo)
if (cd "$W" && git apply "$D/patch.diff"); then AP=ok; else AP=FAIL; fi
B=$(run_demo)
T=$(cd /verif && /venv/bin/python tools/baseline_check.py "$W" 2>&1 | tail -1)
git -C /repo worktree remove --force "$W"
echo "apply=$AP demo_clean=$A demo_mut=$B tests: $T" > "$D/confirm.txt"
cat "$D/confirm.txt"
