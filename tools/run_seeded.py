"""Detection matrix: apply each seeded patch to a scratch copy of /repo's sources and run the named property's check
(and, with --all, every claimed check).  usage: tools/run_seeded.py [--all] [name-filter]"""
import concurrent.futures as cf, json, os, shutil, subprocess, sys, tempfile
V = "/verif"
allc = "--all" in sys.argv
filt = [a for a in sys.argv[1:] if not a.startswith("--")]
claimed = [c["property_id"] for c in json.load(open(f"{V}/MANIFEST.json"))["checks"]]
extra = [p for p in os.environ.get("FV_EXTRA", "").split(",") if p]

def one(name):
    d = f"{V}/seeded/{name}"
    prop = name.split("-")[0]
    td = tempfile.mkdtemp(prefix="fvseed.")
    try:
        subprocess.run(["rsync", "-a", "--exclude", "test", "--exclude", "__pycache__", "/repo/py", "/repo/cpp", td + "/repo/"], check=True)
        subprocess.run(["git", "init", "-q", "."], cwd=td + "/repo")
        r = subprocess.run(["git", "apply", f"{d}/patch.diff"], cwd=td + "/repo", capture_output=True, text=True)
        if r.returncode:
            return name, {"apply": "FAILED " + r.stderr[:100]}
        res = {}
        todo = (claimed if allc else [prop]) + extra
        for p in dict.fromkeys(todo):
            env = dict(os.environ, FV_NO_EVIDENCE="1", FV_REPLAY_DIR=td + "/replay")
            rr = subprocess.run(["/venv/bin/python", f"{V}/fv/check.py", p, "--repo", td + "/repo"], capture_output=True, text=True, env=env)
            first = next((l.strip() for l in rr.stdout.splitlines() if l.strip().startswith("[")), "")
            err = next((l.strip() for l in rr.stdout.splitlines() if l.startswith("ANALYSIS-ERROR")), "")
            res[p] = (rr.returncode, (first or err)[:150])
        return name, res
    finally:
        shutil.rmtree(td, ignore_errors=True)

names = sorted(n for n in os.listdir(f"{V}/seeded") if os.path.isdir(f"{V}/seeded/{n}") and (not filt or any(f in n for f in filt)))
with cf.ThreadPoolExecutor(8) as ex:
    for name, res in ex.map(one, names):
        own = name.split("-")[0]
        line = []
        for p, v in res.items() if isinstance(res, dict) else []:
            if p == "apply":
                line.append(str(v)); continue
            rc, msg = v
            tag = {0: "miss", 1: "VIOLATION", 2: "ANALYSIS-ERROR"}.get(rc, str(rc))
            if p == own or rc != 0:
                line.append(f"{p}:{tag}" + (f" {msg}" if rc and p == own else ""))
        print(f"{name:10s} " + " | ".join(line))
