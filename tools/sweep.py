"""Generic mutation sweep over the anchored code (a development tool for the checkers, NOT a registered check).

Every syntactic mutant of the selected functions is written to a scratch copy and the quick checks of the properties that file belongs to are
run on it.  Survivors (no check reports) are printed for triage: each is either behaviour-preserving / outside every property, or a gap in the rules.

usage: tools/sweep.py <target> [--funcs a,b] [--props C01,C02] [--max N] [--out file.jsonl]
targets: python runtime common cpp fragments design strapdown managed_h templates
"""
from __future__ import annotations

import argparse
import ast
import concurrent.futures as cf
import copy
import json
import os
import re
import shutil
import subprocess
import sys
import threading

sys.path.insert(0, "/verif")
from fv import selftest  # noqa: E402

TARGETS = {
    "python": ("py/formak/python.py", ["C01", "C03", "C04", "C05", "C06", "C09", "C13", "C16", "C17", "C08", "C14", "C19"]),
    "runtime": ("py/formak/runtime.py", ["C10", "C11"]),
    "common": ("py/formak/common.py", ["C14", "C13", "C01", "C04", "C02"]),
    "cpp": ("py/formak/cpp.py", ["C02", "C13", "C15", "C08", "C14", "C07", "C10", "C12"]),
    "fragments": ("py/formak/ast_fragments.py", ["C02", "C13", "C15", "C07", "C12", "C06"]),
    "design": ("py/formak/ui_state_machine.py", ["C18", "C17"]),
    "strapdown": ("py/formak/reference_models/strapdown_imu.py", ["C19"]),
    "managed_h": ("cpp/runtime/include/formak/runtime/ManagedFilter.h", ["C10", "C11", "C12"]),
    "tools": ("py/formak/ast_tools.py", ["C02", "C15", "C12"]),
    "tpl_sensor": ("py/formak/templates/sensor_model.hpp", ["C07", "C06", "C09", "C02", "C12"]),
    "tpl_process": ("py/formak/templates/process_model.cpp", ["C07", "C09", "C02", "C12"]),
    "innov_h": ("cpp/include/formak/innovation_filtering.h", ["C06", "C07", "C12"]),
}

CMP = {ast.Lt: [ast.LtE, ast.Gt], ast.LtE: [ast.Lt, ast.GtE], ast.Gt: [ast.GtE, ast.Lt], ast.GtE: [ast.Gt, ast.LtE], ast.Eq: [ast.NotEq], ast.NotEq: [ast.Eq],
       ast.In: [ast.NotIn], ast.NotIn: [ast.In], ast.Is: [ast.IsNot], ast.IsNot: [ast.Is]}
BIN = {ast.Add: [ast.Sub], ast.Sub: [ast.Add], ast.Mult: [ast.Div], ast.Div: [ast.Mult], ast.FloorDiv: [ast.Div], ast.Mod: [ast.FloorDiv]}
SKIP_FUNCS = {"__repr__", "__str__", "__hash__"}
SKIP_CALLS = {"print", "logger", "logging", "warn", "debug", "info"}


def in_message(node, parents):
    """inside a raise / assert message / logging call / docstring: text only"""
    p = node
    while p in parents:
        p = parents[p]
        if isinstance(p, (ast.Raise, ast.Assert)):
            return True
        if isinstance(p, ast.Call):
            f = ast.unparse(p.func)
            if any(s in f.split(".") for s in SKIP_CALLS) or f.endswith("Error") or f.endswith("Exception"):
                return True
    return False


def splice(src_lines, node, text):
    """replace node's source range by text (node has lineno/col_offset/end_*)"""
    lines = [l.encode() for l in src_lines]
    a, b = node.lineno - 1, node.end_lineno - 1
    new = lines[a][:node.col_offset] + text.encode() + lines[b][node.end_col_offset:]
    out = lines[:a] + [new] + lines[b + 1:]
    return b"".join(out).decode()


def mutants(src, funcs=None):
    tree = ast.parse(src)
    parents = {}
    for n in ast.walk(tree):
        for c in ast.iter_child_nodes(n):
            parents[c] = n
    src_lines = src.splitlines(keepends=True)

    def qual(n):
        names = []
        p = n
        while p in parents:
            p = parents[p]
            if isinstance(p, (ast.FunctionDef, ast.ClassDef)):
                names.append(p.name)
        return ".".join(reversed(names)) or "<module>"

    def expr_mut(n):
        """yield (desc, new_node)"""
        if isinstance(n, ast.Compare) and len(n.ops) == 1:
            for alt in CMP.get(type(n.ops[0]), []):
                m = copy.deepcopy(n)
                m.ops = [alt()]
                yield f"cmp {type(n.ops[0]).__name__}->{alt.__name__}", m
        if isinstance(n, ast.BinOp):
            for alt in BIN.get(type(n.op), []):
                m = copy.deepcopy(n)
                m.op = alt()
                yield f"binop {type(n.op).__name__}->{alt.__name__}", m
            if isinstance(n.op, (ast.MatMult, ast.Sub, ast.Div)) and ast.dump(n.left) != ast.dump(n.right):
                m = copy.deepcopy(n)
                m.left, m.right = m.right, m.left
                yield f"swap operands of {type(n.op).__name__}", m
        if isinstance(n, ast.BoolOp):
            m = copy.deepcopy(n)
            m.op = ast.Or() if isinstance(n.op, ast.And) else ast.And()
            yield "and<->or", m
        if isinstance(n, ast.UnaryOp) and isinstance(n.op, (ast.USub, ast.Not)):
            yield f"drop {type(n.op).__name__}", copy.deepcopy(n.operand)
        if isinstance(n, ast.Constant) and isinstance(n.value, bool):
            yield "bool flip", ast.Constant(not n.value)
        elif isinstance(n, ast.Constant) and isinstance(n.value, (int, float)) and not isinstance(n.value, bool):
            yield "const+1", ast.Constant(n.value + 1)
            if n.value not in (0, 1):
                yield "const->0", ast.Constant(0)
        if isinstance(n, ast.Call):
            pos = [a for a in n.args if not isinstance(a, ast.Starred)]
            if len(pos) >= 2 and len(pos) == len(n.args) and ast.dump(n.args[0]) != ast.dump(n.args[1]):
                m = copy.deepcopy(n)
                m.args[0], m.args[1] = m.args[1], m.args[0]
                yield "swap args 0,1", m
            if len(pos) >= 3 and len(pos) == len(n.args) and ast.dump(n.args[1]) != ast.dump(n.args[2]):
                m = copy.deepcopy(n)
                m.args[1], m.args[2] = m.args[2], m.args[1]
                yield "swap args 1,2", m
            for i, k in enumerate(n.keywords):
                if k.arg in ("key", "reverse", "initial", "atol", "rtol", "axis"):
                    m = copy.deepcopy(n)
                    del m.keywords[i]
                    yield f"drop keyword {k.arg}", m
            if isinstance(n.func, ast.Name) and n.func.id == "sorted" and n.args:
                yield "sorted->list", ast.Call(ast.Name("list", ast.Load()), [copy.deepcopy(n.args[0])], [])
            if isinstance(n.func, ast.Name) and n.func.id in ("abs", "float", "set", "list", "reversed") and len(n.args) == 1 and not n.keywords:
                yield f"drop {n.func.id}()", copy.deepcopy(n.args[0])
            if isinstance(n.func, ast.Name) and n.func.id in ("min", "max"):
                m = copy.deepcopy(n)
                m.func.id = "max" if n.func.id == "min" else "min"
                yield "min<->max", m
        if isinstance(n, ast.Subscript) and isinstance(n.slice, ast.Tuple) and len(n.slice.elts) == 2 and ast.dump(n.slice.elts[0]) != ast.dump(n.slice.elts[1]):
            m = copy.deepcopy(n)
            m.slice.elts.reverse()
            yield "swap indices", m
        if isinstance(n, ast.Attribute) and n.attr == "T":
            yield "drop .T", copy.deepcopy(n.value)
        if isinstance(n, ast.IfExp):
            m = copy.deepcopy(n)
            m.body, m.orelse = m.orelse, m.body
            yield "swap ifexp arms", m

    for n in ast.walk(tree):
        if not hasattr(n, "lineno"):
            continue
        q = qual(n)
        if funcs and not any(q == f or q.startswith(f + ".") or q.endswith("." + f) or ("." + f + ".") in ("." + q + ".") for f in funcs):
            continue
        if any(part in SKIP_FUNCS for part in q.split(".")):
            continue
        if isinstance(n, ast.expr):
            if in_message(n, parents):
                continue
            par = parents.get(n)
            if isinstance(par, (ast.AnnAssign,)) and par.annotation is n:
                continue
            if isinstance(par, ast.arguments) or isinstance(par, ast.arg):
                continue
            if isinstance(n, ast.Constant) and isinstance(par, ast.Expr):
                continue
            if isinstance(par, ast.JoinedStr) or isinstance(par, ast.FormattedValue) and False:
                continue
            for desc, m in expr_mut(n):
                try:
                    text = "(" + ast.unparse(ast.fix_missing_locations(m)) + ")"
                    yield n.lineno, q, desc, splice(src_lines, n, text)
                except Exception:
                    continue
        elif isinstance(n, ast.stmt):
            indent = " " * n.col_offset
            if isinstance(n, ast.Expr) and isinstance(n.value, ast.Call) and not in_message(n.value.func, parents):
                f = ast.unparse(n.value.func)
                if not any(s in f.split(".") for s in SKIP_CALLS):
                    yield n.lineno, q, f"delete call {f[:40]}", splice(src_lines, n, "pass")
            elif isinstance(n, (ast.Assign, ast.AugAssign)) and not isinstance(parents.get(n), (ast.ClassDef, ast.Module)):
                tgt = ast.unparse(n.targets[0] if isinstance(n, ast.Assign) else n.target)
                if "." in tgt or "[" in tgt or isinstance(n, ast.AugAssign):
                    yield n.lineno, q, f"delete store {tgt[:40]}", splice(src_lines, n, "pass")
            elif isinstance(n, ast.Raise):
                yield n.lineno, q, "delete raise", splice(src_lines, n, "pass")
            elif isinstance(n, (ast.Continue, ast.Break)):
                yield n.lineno, q, f"delete {type(n).__name__.lower()}", splice(src_lines, n, "pass")
            elif isinstance(n, ast.Return) and n.value is not None and isinstance(parents.get(n), ast.If):
                yield n.lineno, q, "delete early return", splice(src_lines, n, "pass")
            elif isinstance(n, (ast.If, ast.While)):
                t = n.test
                yield n.lineno, q, "negate test", splice(src_lines, t, "not (" + ast.unparse(t) + ")")
            _ = indent


C_OPS = [(r"<=", "<"), (r">=", ">"), (r"(?<![<\-=!>])<(?![<=])", "<="), (r"(?<![>\-=!<])>(?![>=])", ">="), (r"==", "!="), (r"!=", "=="),
         (r"(?<![+\w])\+(?![+=])", "-"), (r"(?<![-\w>(,=] )-(?![-=>])", "+"), (r"&&", "||"), (r"\|\|", "&&"), (r"\+=", "-="), (r"-=", "+="),
         (r"\bmax_dt\b", "(-max_dt)"), (r"std::abs\(([^()]*)\)", r"(\1)"), (r"\b0\.0\b", "1.0"), (r"\btrue\b", "false"), (r"\bfalse\b", "true")]


def text_mutants(src):
    lines = src.splitlines(keepends=True)
    for i, l in enumerate(lines):
        s = l.strip()
        if not s or s.startswith("//") or s.startswith("#") or s.startswith("*") or s.startswith("/*") or s.startswith("template") or s.startswith("{#"):
            continue
        code = l.split("//")[0]
        for pat, rep in C_OPS:
            for k, m in enumerate(re.finditer(pat, code)):
                if "<" in pat or ">" in pat:
                    # skip template angle brackets / includes / stream ops
                    ctx = code[max(0, m.start() - 25):m.end() + 25]
                    if re.search(r"(template|typename|std::\w+\s*$|optional|vector|static_cast|include|<<|>>|->)", code[max(0, m.start() - 30):m.end() + 2]) and not re.search(r"\b(if|while|return|for)\b", code):
                        continue
                    _ = ctx
                new = code[:m.start()] + m.expand(rep) + code[m.end():] + l[len(code):]
                if new != l:
                    yield i + 1, "<text>", f"{pat} -> {rep} #{k}", "".join(lines[:i] + [new] + lines[i + 1:])
        if s.endswith(";") and not s.startswith("return") and re.match(r"^[\w\.\->:\[\]]+(\(.*\))?\s*(=|\+=|-=)[^=]", s) is not None and "{" not in s:
            yield i + 1, "<text>", "delete statement", "".join(lines[:i] + [l[:len(l) - len(l.lstrip())] + ";\n"] + lines[i + 1:])


_tls = threading.local()


def worker(job):
    rel, props, lineno, q, desc, new_src, orig_src = job
    if not hasattr(_tls, "td"):
        _tls.td = selftest.scratch("/repo")
        ALL.append(_tls.td)
    path = os.path.join(_tls.td, "repo", rel)
    open(path, "w").write(new_src)
    res = {"file": rel, "line": lineno, "func": q, "op": desc, "verdicts": {}}
    try:
        for p in props:
            rc, msg = selftest.run_check(p, _tls.td + "/repo")
            res["verdicts"][p] = rc
            if rc == 1:
                res["caught_by"] = p
                res["msg"] = msg
                break
            if rc == 2 and "first_err" not in res:
                res["first_err"] = (p, msg)
    finally:
        open(path, "w").write(orig_src)
    return res


ALL = []


def main():
    ap = argparse.ArgumentParser()
    ap.add_argument("target")
    ap.add_argument("--funcs", default="")
    ap.add_argument("--props", default="")
    ap.add_argument("--max", type=int, default=0)
    ap.add_argument("--out", default="")
    ap.add_argument("--file", default="")
    a = ap.parse_args()
    if a.file:
        rel, props = a.file, a.props.split(",")
    else:
        rel, props = TARGETS[a.target]
    if a.props:
        props = a.props.split(",")
    src = open(os.path.join("/repo", rel)).read()
    funcs = [f for f in a.funcs.split(",") if f]
    if rel.endswith(".py"):
        gen = mutants(src, funcs)
    else:
        gen = text_mutants(src)
    jobs = []
    seen = set()
    for lineno, q, desc, new in gen:
        if new == src or new in seen:
            continue
        seen.add(new)
        if rel.endswith(".py"):
            try:
                compile(new, rel, "exec")
            except SyntaxError:
                continue
        jobs.append((rel, props, lineno, q, desc, new, src))
    if a.max:
        jobs = jobs[:a.max]
    print(f"{len(jobs)} mutants of {rel}; props {props}", file=sys.stderr)
    out = open(a.out, "w") if a.out else None
    stats = {"caught": 0, "error": 0, "survived": 0}
    srclines = src.splitlines()
    try:
        with cf.ThreadPoolExecutor(16) as ex:
            for r in ex.map(worker, jobs):
                if "caught_by" in r:
                    stats["caught"] += 1
                    kind = "caught"
                elif "first_err" in r:
                    stats["error"] += 1
                    kind = "error"
                else:
                    stats["survived"] += 1
                    kind = "SURVIVED"
                r["kind"] = kind
                r["source"] = srclines[r["line"] - 1].strip()[:140]
                if out:
                    out.write(json.dumps(r) + "\n")
                if kind != "caught":
                    extra = f" [{r['first_err'][0]}: {r['first_err'][1][:100]}]" if kind == "error" else ""
                    print(f"{kind:8s} {rel}:{r['line']} {r['func']}: {r['op']} | {r['source'][:110]}{extra}")
    finally:
        for td in ALL:
            shutil.rmtree(td, ignore_errors=True)
    print(json.dumps(stats), file=sys.stderr)


if __name__ == "__main__":
    main()
