import json, glob, jsonschema
ms=json.load(open('/root/.vp/MANIFEST.schema.json')); jsonschema.validate(json.load(open('/verif/MANIFEST.json')), ms); print("manifest ok")
es=json.load(open('/root/.vp/EVIDENCE.schema.json'))
for f in sorted(glob.glob('/verif/evidence/*.json')):
    jsonschema.validate(json.load(open(f)), es); print('ok',f)
