"""Copy a confirmed sub-agent mutant into /verif/seeded/<prop>-<k>/ with meta.json extended by what was run to confirm it."""
import json, os, shutil, sys
src = sys.argv[1].rstrip("/")            # e.g. /tmp/mut/C10/m1
prop = os.path.basename(os.path.dirname(src)); k = os.path.basename(src)
conf = open(os.path.join(src, "confirm.txt")).read().strip()
assert "apply=ok" in conf and "demo_clean=0" in conf and "missing=[]" in conf and "demo_mut=0" not in conf, conf
dst = f"/verif/seeded/{prop}-" + (os.environ.get("MUT_TAG", "") + k)
os.makedirs(dst, exist_ok=True)
for f in os.listdir(src):
    if f in ("patch.diff", "demo.py", "demo.sh", "demo.cpp", "meta.json") or f.startswith("demo"):
        shutil.copy(os.path.join(src, f), dst)
meta = json.load(open(os.path.join(dst, "meta.json")))
meta["property"] = prop
meta["confirmed"] = {"by": "tools/confirm_mutant.sh in a fresh scratch worktree of /repo HEAD",
                     "result": conf,
                     "meaning": "patch applies; demo exits 0 without the patch and non-zero with it; the 42 baseline tests still pass with it"}
json.dump(meta, open(os.path.join(dst, "meta.json"), "w"), indent=1)
print("kept", dst)
