"""Benign-transformation sweep (development tool, NOT a registered check): behaviour-preserving syntactic rewrites of the anchored code;
every check must still exit 0 on each variant.  Variants (one per function / site):

  rename      every local variable of one function (not parameters, not attributes, not globals) gets the suffix `_rn`
  swap-if     one `if c: A else: B` becomes `if not (c): B else: A`
  dot-T       every `x.transpose()` in one function becomes `x.T`
  matmul      every `np.matmul(a, b)` in one function becomes `(a @ b)`
  fstring     `"..{}..".format(x)` with plain `{}` holes becomes an f-string (one function at a time)
  return-temp every `return <non-trivial expr>` of one function becomes `ret_rn = <expr>; return ret_rn`
  hoist-arg   one statement `x = f(<call>, ...)` / `f(<call>, ...)` has its first (leftmost-evaluated) positional argument, when that is a call,
              bound to a fresh local first: `arg_rn = <call>; x = f(arg_rn, ...)` (f a plain name / attribute chain)
  cmp-flip    one comparison `a < b` becomes `b > a` (likewise <=, >, >=, ==, !=) when both sides are side-effect-free names / attributes / constants / len()

usage: tools/benign.py <sweep target> [--props C01,...] [--kinds rename,swap-if,...] [--funcs f,g]
"""
from __future__ import annotations

import argparse
import ast
import concurrent.futures as cf
import copy
import os
import shutil
import sys
import threading

sys.path.insert(0, "/verif")
from fv import selftest  # noqa: E402
from tools.sweep import TARGETS  # noqa: E402


def funcs_of(tree):
    out = []

    def walk(node, prefix):
        for ch in ast.iter_child_nodes(node):
            if isinstance(ch, ast.FunctionDef):
                out.append((prefix + ch.name, ch))
                walk(ch, prefix + ch.name + ".")
            elif isinstance(ch, ast.ClassDef):
                walk(ch, prefix + ch.name + ".")
            else:
                walk(ch, prefix)
    walk(tree, "")
    return out


def locals_of(fn: ast.FunctionDef):
    params = {a.arg for a in fn.args.posonlyargs + fn.args.args + fn.args.kwonlyargs}
    if fn.args.vararg:
        params.add(fn.args.vararg.arg)
    if fn.args.kwarg:
        params.add(fn.args.kwarg.arg)
    stores, glob = set(), set()
    nested_params = set()
    for n in ast.walk(fn):
        if isinstance(n, ast.Name) and isinstance(n.ctx, ast.Store):
            stores.add(n.id)
        if isinstance(n, (ast.Global, ast.Nonlocal)):
            glob |= set(n.names)
        if isinstance(n, (ast.FunctionDef, ast.Lambda)) and n is not fn:
            for a in n.args.posonlyargs + n.args.args + n.args.kwonlyargs:
                nested_params.add(a.arg)
    # names bound in the body of a nested class are class attributes, not locals
    for n in ast.walk(fn):
        if isinstance(n, ast.ClassDef):
            for st in n.body:
                for m in ast.walk(st):
                    if isinstance(m, ast.Name) and isinstance(m.ctx, ast.Store) and not isinstance(st, (ast.FunctionDef,)):
                        glob.add(m.id)
    # names used as keyword arguments somewhere / in locals() tricks are left alone
    risky = {"result"} if any(isinstance(n, ast.Call) and isinstance(n.func, ast.Name) and n.func.id == "locals" for n in ast.walk(fn)) else set()
    return stores - params - glob - nested_params - risky


def variants(src, kinds, only_funcs):
    tree = ast.parse(src)
    for q, fn in funcs_of(tree):
        if only_funcs and not any(q == f or q.endswith("." + f) for f in only_funcs):
            continue
        if "rename" in kinds:
            loc = locals_of(fn)
            if loc:
                t2 = copy.deepcopy(tree)
                f2 = dict(funcs_of(t2))[q]
                for n in ast.walk(f2):
                    if isinstance(n, ast.Name) and n.id in loc:
                        n.id = n.id + "_rn"
                yield q, "rename locals " + ",".join(sorted(loc))[:60], ast.unparse(t2)
        if "swap-if" in kinds:
            ifs = [n for n in ast.walk(fn) if isinstance(n, ast.If) and n.orelse and not (len(n.orelse) == 1 and isinstance(n.orelse[0], ast.If))]
            for k, _ in enumerate(ifs):
                t2 = copy.deepcopy(tree)
                f2 = dict(funcs_of(t2))[q]
                n = [x for x in ast.walk(f2) if isinstance(x, ast.If) and x.orelse and not (len(x.orelse) == 1 and isinstance(x.orelse[0], ast.If))][k]
                n.test, n.body, n.orelse = ast.UnaryOp(ast.Not(), n.test), n.orelse, n.body
                yield q, f"swap-if #{k} line {n.lineno}", ast.unparse(ast.fix_missing_locations(t2))
        if "dot-T" in kinds:
            t2 = copy.deepcopy(tree)
            f2 = dict(funcs_of(t2))[q]
            cnt = [0]

            class R(ast.NodeTransformer):
                def visit_Call(self, n):
                    self.generic_visit(n)
                    if isinstance(n.func, ast.Attribute) and n.func.attr == "transpose" and not n.args and not n.keywords:
                        cnt[0] += 1
                        return ast.Attribute(n.func.value, "T", ast.Load())
                    return n
            R().visit(f2)
            if cnt[0]:
                yield q, f"dot-T x{cnt[0]}", ast.unparse(ast.fix_missing_locations(t2))
        if "matmul" in kinds:
            t2 = copy.deepcopy(tree)
            f2 = dict(funcs_of(t2))[q]
            cnt = [0]

            class M(ast.NodeTransformer):
                def visit_Call(self, n):
                    self.generic_visit(n)
                    if ast.unparse(n.func) == "np.matmul" and len(n.args) == 2 and not n.keywords:
                        cnt[0] += 1
                        return ast.BinOp(n.args[0], ast.MatMult(), n.args[1])
                    return n
            M().visit(f2)
            if cnt[0]:
                yield q, f"matmul x{cnt[0]}", ast.unparse(ast.fix_missing_locations(t2))
        if "fstring" in kinds:
            t2 = copy.deepcopy(tree)
            f2 = dict(funcs_of(t2))[q]
            cnt = [0]

            class F(ast.NodeTransformer):
                def visit_Call(self, n):
                    self.generic_visit(n)
                    if isinstance(n.func, ast.Attribute) and n.func.attr == "format" and isinstance(n.func.value, ast.Constant) \
                            and isinstance(n.func.value.value, str) and not n.keywords and n.func.value.value.count("{}") == len(n.args) \
                            and "{" not in n.func.value.value.replace("{}", "") and "}" not in n.func.value.value.replace("{}", "") \
                            and not any(isinstance(a, ast.Starred) for a in n.args):
                        parts = n.func.value.value.split("{}")
                        vals = []
                        for i_, p_ in enumerate(parts):
                            if p_:
                                vals.append(ast.Constant(p_))
                            if i_ < len(n.args):
                                vals.append(ast.FormattedValue(n.args[i_], -1, None))
                        cnt[0] += 1
                        return ast.JoinedStr(vals)
                    return n
            F().visit(f2)
            if cnt[0]:
                yield q, f"fstring x{cnt[0]}", ast.unparse(ast.fix_missing_locations(t2))


        if "return-temp" in kinds:
            t2 = copy.deepcopy(tree)
            f2 = dict(funcs_of(t2))[q]
            cnt = [0]
            if not any(isinstance(n, (ast.Yield, ast.YieldFrom)) for n in ast.walk(f2)):
                class RT(ast.NodeTransformer):
                    def visit_FunctionDef(self, n):
                        if n is f2:
                            self.generic_visit(n)
                        return n

                    def visit_Lambda(self, n):
                        return n

                    def visit_Return(self, n):
                        if n.value is None or isinstance(n.value, (ast.Name, ast.Constant)):
                            return n
                        cnt[0] += 1
                        return [ast.Assign([ast.Name("ret_rn", ast.Store())], n.value), ast.Return(ast.Name("ret_rn", ast.Load()))]
                RT().visit(f2)
                if cnt[0]:
                    yield q, f"return-temp x{cnt[0]}", ast.unparse(ast.fix_missing_locations(t2))
        if "hoist-arg" in kinds:
            def sites(f):
                out_ = []
                for n in ast.walk(f):
                    for fld in ("body", "orelse"):
                        lst = getattr(n, fld, None)
                        if not isinstance(lst, list):
                            continue
                        for i_, st in enumerate(lst):
                            c = st.value if isinstance(st, (ast.Assign, ast.Expr, ast.Return)) else None
                            if isinstance(c, ast.Call) and c.args and isinstance(c.args[0], ast.Call) and not isinstance(c.args[0], ast.Starred) \
                                    and all(isinstance(x, (ast.Name, ast.Attribute)) for x in ast.walk(c.func) if isinstance(x, ast.expr) and not isinstance(x, ast.expr_context)):
                                out_.append((lst, i_))
                return out_
            for k, _ in enumerate(sites(fn)):
                t2 = copy.deepcopy(tree)
                f2 = dict(funcs_of(t2))[q]
                lst, i_ = sites(f2)[k]
                st = lst[i_]
                c = st.value
                tmp = f"arg{k}_rn"
                lst.insert(i_, ast.Assign([ast.Name(tmp, ast.Store())], c.args[0]))
                c.args[0] = ast.Name(tmp, ast.Load())
                yield q, f"hoist-arg #{k} line {getattr(st, 'lineno', '?')}", ast.unparse(ast.fix_missing_locations(t2))
        if "cmp-flip" in kinds:
            FL = {ast.Lt: ast.Gt, ast.Gt: ast.Lt, ast.LtE: ast.GtE, ast.GtE: ast.LtE, ast.Eq: ast.Eq, ast.NotEq: ast.NotEq}

            def simple(e):
                return all(isinstance(x, (ast.Name, ast.Attribute, ast.Constant, ast.expr_context)) or
                           (isinstance(x, ast.Call) and isinstance(x.func, ast.Name) and x.func.id == "len") for x in ast.walk(e))

            def csites(f):
                return [n for n in ast.walk(f) if isinstance(n, ast.Compare) and len(n.ops) == 1 and type(n.ops[0]) in FL and simple(n.left) and simple(n.comparators[0])]
            for k, _ in enumerate(csites(fn)):
                t2 = copy.deepcopy(tree)
                f2 = dict(funcs_of(t2))[q]
                n = csites(f2)[k]
                n.left, n.comparators, n.ops = n.comparators[0], [n.left], [FL[type(n.ops[0])]()]
                yield q, f"cmp-flip #{k} line {n.lineno}", ast.unparse(ast.fix_missing_locations(t2))


_tls = threading.local()
ALL = []


def worker(job):
    rel, props, q, desc, new_src, orig_src = job
    if not hasattr(_tls, "td"):
        _tls.td = selftest.scratch("/repo")
        ALL.append(_tls.td)
    path = os.path.join(_tls.td, "repo", rel)
    open(path, "w").write(new_src)
    bad = []
    try:
        for p in props:
            rc, msg = selftest.run_check(p, _tls.td + "/repo")
            if rc != 0:
                bad.append((p, rc, msg))
    finally:
        open(path, "w").write(orig_src)
    return q, desc, bad


def main():
    ap = argparse.ArgumentParser()
    ap.add_argument("target")
    ap.add_argument("--props", default="")
    ap.add_argument("--kinds", default="rename,swap-if,dot-T,matmul,fstring,return-temp,hoist-arg,cmp-flip")
    ap.add_argument("--funcs", default="")
    a = ap.parse_args()
    rel, props = TARGETS[a.target]
    if a.props:
        props = a.props.split(",")
    src = open(os.path.join("/repo", rel)).read()
    jobs = []
    for q, desc, new in variants(src, set(a.kinds.split(",")), [f for f in a.funcs.split(",") if f]):
        try:
            compile(new, rel, "exec")
        except SyntaxError:
            continue
        jobs.append((rel, props, q, desc, new, src))
    print(f"{len(jobs)} benign variants of {rel}; props {props}", file=sys.stderr)
    nbad = 0
    try:
        with cf.ThreadPoolExecutor(12) as ex:
            for q, desc, bad in ex.map(worker, jobs):
                for p, rc, msg in bad:
                    nbad += 1
                    print(f"{'VIOLATION' if rc == 1 else 'ERROR':9s} {p} {rel}:{q}: {desc} | {msg[:150]}")
    finally:
        for td in ALL:
            shutil.rmtree(td, ignore_errors=True)
    print(f"{len(jobs)} variants, {nbad} (variant, property) alarms", file=sys.stderr)


if __name__ == "__main__":
    main()
