"""Benign-transformation sweep (development tool, NOT a registered check): behaviour-preserving syntactic rewrites of the anchored code;
every check must still exit 0 on each variant.  Variants (one per function / site):

  rename      every local variable of one function (not parameters, not attributes, not globals) gets the suffix `_rn`
  swap-if     one `if c: A else: B` becomes `if not (c): B else: A`
  dot-T       every `x.transpose()` in one function becomes `x.T`
  matmul      every `np.matmul(a, b)` in one function becomes `(a @ b)`
  fstring     `"..{}..".format(x)` with plain `{}` holes becomes an f-string (one function at a time)
  return-temp every `return <non-trivial expr>` of one function becomes `ret_rn = <expr>; return ret_rn`
  hoist-arg   one statement `x = f(<call>, ...)` / `f(<call>, ...)` has its first (leftmost-evaluated) positional argument, when that is a call,
              bound to a fresh local first: `arg_rn = <call>; x = f(arg_rn, ...)` (f a plain name / attribute chain)
  exit-else   one `if c: ...; return/raise/continue` followed by more statements gets the rest moved into its `else:` arm
  swap-stmts  two adjacent simple assignments with call-free right-hand sides, neither reading the other's target, are exchanged
  kw-reorder  the keyword arguments of one call (>= 2 keywords, all values side-effect free: names / attributes / constants / subscripts) are reversed
  pos-to-kw   one call `self.m(a, b)` of a method of the same class passes its positional arguments by keyword
  demorgan    one `not (a and b)` / `a and b` test of an if (both operands call-free) becomes `not a or not b` / `not (not a or not b)`
  cmp-flip    one comparison `a < b` becomes `b > a` (likewise <=, >, >=, ==, !=) when both sides are side-effect-free names / attributes / constants / len()

usage: tools/benign.py <sweep target> [--props C01,...] [--kinds rename,swap-if,...] [--funcs f,g]
"""
from __future__ import annotations

import argparse
import concurrent.futures as cf
import os
import shutil
import sys
import threading

sys.path.insert(0, "/verif")
from fv import selftest  # noqa: E402
from fv.benign import KINDS, variants  # noqa: E402
from tools.sweep import TARGETS  # noqa: E402


_tls = threading.local()
ALL = []


def worker(job):
    rel, props, q, desc, new_src, orig_src = job
    if not hasattr(_tls, "td"):
        _tls.td = selftest.scratch("/repo")
        ALL.append(_tls.td)
    path = os.path.join(_tls.td, "repo", rel)
    open(path, "w").write(new_src)
    bad = []
    try:
        for p in props:
            rc, msg = selftest.run_check(p, _tls.td + "/repo")
            if rc != 0:
                bad.append((p, rc, msg))
    finally:
        open(path, "w").write(orig_src)
    return q, desc, bad


def main():
    ap = argparse.ArgumentParser()
    ap.add_argument("target")
    ap.add_argument("--props", default="")
    ap.add_argument("--kinds", default=",".join(KINDS))
    ap.add_argument("--funcs", default="")
    a = ap.parse_args()
    rel, props = TARGETS[a.target]
    if a.props:
        props = a.props.split(",")
    src = open(os.path.join("/repo", rel)).read()
    jobs = []
    for q, desc, new in variants(src, set(a.kinds.split(",")), [f for f in a.funcs.split(",") if f]):
        try:
            compile(new, rel, "exec")
        except SyntaxError:
            continue
        jobs.append((rel, props, q, desc, new, src))
    print(f"{len(jobs)} benign variants of {rel}; props {props}", file=sys.stderr)
    nbad = 0
    try:
        with cf.ThreadPoolExecutor(12) as ex:
            for q, desc, bad in ex.map(worker, jobs):
                for p, rc, msg in bad:
                    nbad += 1
                    print(f"{'VIOLATION' if rc == 1 else 'ERROR':9s} {p} {rel}:{q}: {desc} | {msg[:150]}")
    finally:
        for td in ALL:
            shutil.rmtree(td, ignore_errors=True)
    print(f"{len(jobs)} variants, {nbad} (variant, property) alarms", file=sys.stderr)


if __name__ == "__main__":
    main()
